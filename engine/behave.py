"""Observing generated code: model round trips, endpoint calls through a capturing transport."""
from __future__ import annotations

import copy
from typing import Any

from .gen.instances import first_diff, is_plain_json, json_eq


def describe(s: dict | None, comps: dict, depth: int = 0) -> dict:
    """A small, stable description of a schema used as the call-site pattern of a violation."""
    if s is None:
        return {"kind": "none"}
    k = s.get("k")
    d: dict[str, Any] = {"kind": k}
    if s.get("nullable"):
        d["nullable"] = True
    if k == "ref":
        t = comps.get(s.get("name"))
        d["target"] = t.get("k") if t else "missing"
        if t and t.get("k") == "enum":
            d["base"] = t.get("base")
    elif k == "array" and depth < 2:
        d["item"] = describe(s.get("items"), comps, depth + 1)
    elif k == "union":
        ms = s.get("members", [])
        kinds = [effective_kind(m, comps) for m in ms]
        d["members"] = sorted(set(kinds))
        d["date_and_datetime"] = "date" in kinds and "datetime" in kinds
        int_enum = any((m.get("k") == "enum" and m.get("base") == "int") or
                       (m.get("k") == "ref" and (comps.get(m.get("name")) or {}).get("k") == "enum"
                        and (comps.get(m.get("name")) or {}).get("base") == "int") for m in ms)
        d["bool_and_int_enum"] = "bool" in kinds and int_enum
        d["arrays"] = kinds.count("array")
        d["object_members"] = sum(1 for x in kinds if x in ("object", "ref:object"))

        def _closed(m):
            t = comps.get(m.get("name")) if m.get("k") == "ref" else m
            return bool(t) and t.get("k") == "object" and t.get("addl") is False
        d["closed_object_member"] = any(_closed(m) for m in ms) and sum(1 for x in kinds if x in ("object", "ref:object")) >= 2
    elif k == "enum":
        d["base"] = s.get("base")
        if s.get("null"):
            d["null"] = True
    elif k == "const":
        d["ctype"] = type(s.get("value")).__name__
    return d


def effective_kind(s: dict, comps: dict) -> str:
    k = s.get("k")
    if k == "ref":
        t = comps.get(s.get("name"))
        return ("ref:" + t.get("k")) if t else "ref:missing"
    return k


def needs_construct(s: dict, comps: dict) -> bool:
    """Does the generated decoder have to build a Python object for values of this schema?"""
    k = s.get("k")
    if k in ("date", "datetime", "uuid", "enum", "object", "union", "const", "binary"):
        return True
    if k == "ref":
        return True
    if k == "array":
        return needs_construct(s.get("items", {}), comps)
    return bool(s.get("nullable")) and k not in ("any",)


def _is_ctl(e: BaseException) -> bool:
    return isinstance(e, (KeyboardInterrupt, SystemExit)) or type(e).__name__ == "CaseTimeout"


def _attempt(cls, value):
    """Returns (stage, exception) of the first failing stage, or (None, (obj, enc, obj2))."""
    try:
        obj = cls.from_dict(copy.deepcopy(value))
    except BaseException as e:  # noqa: BLE001
        if _is_ctl(e):
            raise
        return "decode", e
    try:
        enc = obj.to_dict()
    except BaseException as e:  # noqa: BLE001
        if _is_ctl(e):
            raise
        return "encode", e
    try:
        obj2 = cls.from_dict(copy.deepcopy(enc))
    except BaseException as e:  # noqa: BLE001
        if _is_ctl(e):
            raise
        return "redecode", e
    return None, (obj, enc, obj2)


def roundtrip(cls, value: dict, props: list, comps: dict) -> list[tuple[str, dict, str]]:
    """The C02 clauses for one class and one instance. Returns [(clause, site, detail)]."""
    out: list[tuple[str, dict, str]] = []
    stage, res = _attempt(cls, value)
    if stage is not None:
        site = {"exc": type(res).__name__, **_blame_exc(cls, stage, res, value, props, comps)}
        out.append((f"{stage}.raises", site, repr(res)[:300]))
        return out
    obj, enc, obj2 = res
    if not is_plain_json(enc):
        out.append(("encode.plain_json", _blame(value, enc, props, comps, plain=True), repr(enc)[:300]))
        return out
    if not json_eq(enc, value):
        out.append(("roundtrip.encode_equals", _blame(value, enc, props, comps), first_diff(value, enc)[:300]))
    if obj2 != obj:
        out.append(("roundtrip.redecode_equal", _blame(value, enc, props, comps), f"{obj!r} != {obj2!r}"[:300]))
    return out


def _blame(value: dict, enc: Any, props: list, comps: dict, plain: bool = False) -> dict:
    """The deepest schema position at which original and re-encoded value differ."""
    root = {"k": "object", "props": props, "addl": True, "allOf": []}
    return locate(value, enc, root, comps, True, True, plain)


def _differs(a, b, plain: bool) -> bool:
    return (not json_eq(a, b)) or (plain and not is_plain_json(b))


def locate(a: Any, b: Any, s: dict | None, comps: dict, required: bool, present: bool, plain: bool = False, depth: int = 0) -> dict:
    from .gen.instances import flatten_object

    seen = 0
    while s is not None and s.get("k") == "ref" and seen < 5:
        nullable = s.get("nullable")
        s = comps.get(s.get("name"))
        if s is not None and nullable:
            s = {**s, "nullable": True}
        seen += 1
    if s is None:
        return {"where": "unresolved"}
    k = s.get("k")
    if k == "object" and isinstance(a, dict) and isinstance(b, dict) and depth < 8:
        props, addl = flatten_object(s, comps)
        pmap = {p[0]: p for p in props}
        for key in sorted(set(a) | set(b)):
            if key in a and key in b and not _differs(a[key], b[key], plain):
                continue
            if key in pmap:
                _, sch, req = pmap[key]
                if key in a and key in b:
                    return locate(a[key], b[key], sch, comps, bool(req), True, plain, depth + 1)
                return {"where": "declared", "schema": describe(sch, comps), "required": bool(req), "present": key in a,
                        "null": False}
            if isinstance(addl, dict) and key in a and key in b:
                return {**locate(a[key], b[key], addl, comps, True, True, plain, depth + 1), "via": "additional"}
            return {"where": "additional", "present": key in a}
    if k == "array" and isinstance(a, list) and isinstance(b, list) and len(a) == len(b) and depth < 8:
        for x, y in zip(a, b):
            if _differs(x, y, plain):
                return {**locate(x, y, s.get("items"), comps, True, True, plain, depth + 1), "in_array": True}
    return {"where": "declared", "schema": describe(s, comps), "required": required, "present": present, "null": a is None}


def _blame_exc(cls, stage: str, e: BaseException, value: dict, props: list, comps: dict) -> dict:
    """Isolate the property whose presence triggers the exception: required keys + one candidate at a time."""
    pmap = {p[0]: p for p in props}
    req = {k: v for k, v in value.items() if k in pmap and pmap[k][2]}
    base_stage, base_res = _attempt(cls, req)
    if base_stage == stage and type(base_res) is type(e):
        # already fails with required keys only: try each required key's schema description
        cands = [k for k in req]
        if len(cands) == 1:
            k = cands[0]
            return {"where": "declared", "schema": describe(pmap[k][1], comps), "required": True, "present": True,
                    "null": value[k] is None}
        return {"where": "required-set", "schemas": sorted({describe(pmap[k][1], comps)["kind"] for k in cands})[:1]}
    for k in value:
        if k in req:
            continue
        trial = dict(req)
        trial[k] = value[k]
        st_, r_ = _attempt(cls, trial)
        if st_ == stage and type(r_) is type(e):
            if k in pmap:
                return {"where": "declared", "schema": describe(pmap[k][1], comps), "required": False, "present": True,
                        "null": value[k] is None}
            return {"where": "additional", "present": True}
    return {"where": "unknown"}
