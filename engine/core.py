"""Case context, violations, known-finding matching, evidence."""
from __future__ import annotations

import hashlib
import json
import os
import signal
import time
from typing import Any

from . import env


class CaseTimeout(BaseException):
    pass


class HarnessError(Exception):
    """Raised by harness code when *it* is wrong (never for SUT misbehaviour)."""


def canon(obj: Any) -> str:
    return json.dumps(obj, sort_keys=True, ensure_ascii=True, default=repr, separators=(",", ":"))


def h64(obj: Any) -> str:
    return hashlib.sha256(canon(obj).encode()).hexdigest()[:16]


class Ctx:
    """Collects what one case observed."""

    def __init__(self, tier: str = "quick", replay: bool = False):
        self.tier = tier
        self.replay = replay
        self.violations: list[dict] = []
        self.labels: list[str] = []
        self.nontrivial_keys: list[str] = []
        self.skipped: str | None = None
        self.excluded: list[str] = []
        self.sample: Any = None
        self.sub_evaluations = 0
        self.case_override: Any = None   # a derived, directly replayable case (e.g. the input a fuzzing campaign found)

    def violation(self, clause: str, site: dict, detail: str = "") -> None:
        self.violations.append({"clause": clause, "site": site, "detail": str(detail)[:1500]})

    def label(self, *names: str) -> None:
        self.labels.extend(names)

    def nontrivial(self, key: Any = True) -> None:
        self.nontrivial_keys.append(h64(key))

    def skip(self, why: str) -> None:
        self.skipped = why

    def exclude(self, finding_id: str) -> None:
        self.excluded.append(finding_id)

    def evals(self, n: int = 1) -> None:
        self.sub_evaluations += n


# --------------------------------------------------------------------------------------- known findings

FINDINGS_FILE = os.path.join(env.VERIF, "known_findings.jsonl")


def load_findings(prop: str) -> list[dict]:
    out = []
    if not os.path.exists(FINDINGS_FILE):
        return out
    with open(FINDINGS_FILE, encoding="utf-8") as f:
        for line in f:
            line = line.strip()
            if not line or line.startswith("#") or line.startswith("fixed:"):
                continue
            d = json.loads(line)
            if d.get("property") == prop:
                out.append(d)
    return out


def _match_value(pat: Any, val: Any) -> bool:
    if isinstance(pat, list):
        return any(_match_value(p, val) for p in pat)
    if isinstance(pat, dict) and isinstance(val, dict):
        return all(k in val and _match_value(v, val[k]) for k, v in pat.items())
    return pat == val


def matches(finding: dict, v: dict) -> bool:
    if finding.get("status", "open") != "open":
        return False
    cl = finding.get("clause")
    if isinstance(cl, list):
        if v["clause"] not in cl:
            return False
    elif cl != v["clause"]:
        return False
    return _match_value(finding.get("site", {}), v["site"])


def classify(violations: list[dict], live: list[dict]) -> tuple[list[tuple[dict, str]], list[dict]]:
    known, unknown = [], []
    for v in violations:
        for f in live:
            if matches(f, v):
                known.append((v, f["id"]))
                break
        else:
            unknown.append(v)
    return known, unknown


# --------------------------------------------------------------------------------------- watchdog

def with_timeout(seconds: float, fn, *a, **kw):
    def _h(signum, frame):
        raise CaseTimeout()

    old = signal.signal(signal.SIGALRM, _h)
    signal.setitimer(signal.ITIMER_REAL, seconds)
    try:
        return fn(*a, **kw)
    finally:
        signal.setitimer(signal.ITIMER_REAL, 0)
        signal.signal(signal.SIGALRM, old)


# --------------------------------------------------------------------------------------- evidence

def write_evidence(prop: str, tier: str, seed: int, t0: float, coverage: dict, assumptions: list[str],
                   violations: int, level: str = "exploration") -> str:
    # evidence describes /repo itself; a run against a patched scratch copy (VERIF_REPO) writes elsewhere
    evdir = os.path.join(env.VERIF, "evidence") if env.REPO == "/repo" else os.path.join(env.VERIF, ".work", "evidence-scratch")
    os.makedirs(evdir, exist_ok=True)
    ev = {
        "property_id": prop,
        "tier": tier,
        "seed": int(seed),
        "level": level,
        "coverage": coverage,
        "assumptions": assumptions,
        "wall_s": round(time.time() - t0, 2),
        "violations": int(violations),
    }
    # self-validation of the shape the schema requires for exploration-level evidence
    c = ev["coverage"]
    for k in ("evaluations", "distinct_nontrivial", "rule", "samples"):
        if k not in c:
            raise HarnessError(f"evidence coverage lacks {k}")
    if not isinstance(c["samples"], list) or not c["samples"]:
        raise HarnessError("evidence has no samples")
    path = os.path.join(evdir, f"{prop}.json")
    tmp = path + ".tmp"
    with open(tmp, "w", encoding="utf-8") as f:
        json.dump(ev, f, indent=1, ensure_ascii=True, default=repr)
    os.replace(tmp, path)
    return path


def abbreviate(obj: Any, limit: int = 1200) -> Any:
    s = canon(obj)
    if len(s) <= limit:
        return obj
    return {"abbreviated_json": s[:limit] + "...", "full_len": len(s)}
