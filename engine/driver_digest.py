"""Subprocess driver: generate each document of a batch (paths on argv) and print one tree digest per document.
Run under a chosen PYTHONHASHSEED; the first document is generated again at the end (state leaking between generations)."""
import json
import os
import sys

_here = os.path.dirname(os.path.abspath(__file__))
sys.path[:] = [p for p in sys.path if os.path.abspath(p or ".") != _here]  # engine/http.py must not shadow the stdlib
sys.path.insert(0, os.path.dirname(_here))
from engine import env  # noqa: E402

env.bootstrap(reexec=False)
from engine import sut  # noqa: E402


def main():
    spec = json.load(open(sys.argv[1]))
    out = []
    docs = spec["docs"]
    order = list(range(len(docs))) + ([0] if docs else [])
    for i in order:
        d = docs[i]
        res = sut.generate(source=d["path"], meta=d.get("meta", "none"), cfg=d.get("cfg") or {}, hooks=bool(d.get("hooks")),
                           via_project=False, pkg_name="pkg")
        if res.exc is not None:
            out.append({"i": i, "crash": repr(res.exc)[:200]})
        else:
            snap = sut.snapshot(res.out)
            out.append({"i": i, "digest": sut.digest(snap), "n": len(snap), "errors": len(res.errors or []),
                        "files": {k: __import__("hashlib").sha256(v).hexdigest()[:12] for k, v in snap.items()}})
        env.rm(os.path.dirname(res.out))
    print("DIGESTS " + json.dumps(out))


if __name__ == "__main__":
    main()
