"""Environment bootstrap: which tree is under test, hash seed, scratch space."""
from __future__ import annotations

import atexit
import os
import shutil
import sys
import tempfile

VERIF = os.path.dirname(os.path.dirname(os.path.abspath(__file__)))
REPO = os.path.abspath(os.environ.get("VERIF_REPO", "/repo"))
HARNESS_ERROR = 2

_scratch_root: str | None = None


def bootstrap(reexec: bool = True) -> None:
    """Put the tree under test first on sys.path and make sure that is what gets imported."""
    if reexec and os.environ.get("PYTHONHASHSEED") != "0":
        os.environ["PYTHONHASHSEED"] = "0"
        os.execv(sys.executable, [sys.executable, *sys.argv])
    if "/venv/bin" not in os.environ.get("PATH", ""):
        os.environ["PATH"] = "/venv/bin:" + os.environ.get("PATH", "")
    for p in (os.path.join(VERIF, ".deps"), VERIF, REPO):
        if p in sys.path:
            sys.path.remove(p)
    sys.path.append(os.path.join(VERIF, ".deps"))  # last: never shadow what /venv provides
    sys.path.insert(0, VERIF)
    sys.path.insert(0, REPO)
    try:
        import openapi_python_client  # noqa: F401
    except Exception as e:  # the tree does not even import: that is a harness-level failure
        print(f"HARNESS-ERROR: cannot import openapi_python_client from {REPO}: {e!r}")
        sys.exit(HARNESS_ERROR)
    f = os.path.abspath(openapi_python_client.__file__)
    if not f.startswith(REPO + os.sep):
        print(f"HARNESS-ERROR: openapi_python_client imported from {f}, expected under {REPO}")
        sys.exit(HARNESS_ERROR)


def scratch_root() -> str:
    """Per-process scratch directory (tmpfs when available), removed at exit."""
    global _scratch_root
    if _scratch_root is None or not os.path.isdir(_scratch_root) or _scratch_owner != os.getpid():
        base = "/dev/shm" if os.path.isdir("/dev/shm") and os.access("/dev/shm", os.W_OK) else tempfile.gettempdir()
        _scratch_root = tempfile.mkdtemp(prefix=f"verif-{os.getpid()}-", dir=base)
        _set_owner()
        atexit.register(_cleanup, _scratch_root, os.getpid())
    return _scratch_root


_scratch_owner = -1


def _set_owner() -> None:
    global _scratch_owner
    _scratch_owner = os.getpid()


def _cleanup(path: str, pid: int) -> None:
    if os.getpid() == pid:
        shutil.rmtree(path, ignore_errors=True)


def cleanup_now() -> None:
    """Remove this process' scratch root now (pool workers leave through os._exit, where atexit handlers do not run)."""
    global _scratch_root
    if _scratch_root is not None and _scratch_owner == os.getpid():
        shutil.rmtree(_scratch_root, ignore_errors=True)
        _scratch_root = None


_counter = 0


def fresh_dir(prefix: str = "d") -> str:
    global _counter
    _counter += 1
    p = os.path.join(scratch_root(), f"{prefix}{_counter}")
    os.makedirs(p)
    return p


def rm(path: str) -> None:
    shutil.rmtree(path, ignore_errors=True)
