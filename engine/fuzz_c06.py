"""atheris (libFuzzer) target for C06: coverage-guided search for escaped exceptions in document loading + parsing.

Two modes chosen by the first input byte:
  raw        the remaining bytes are offered as a JSON or YAML file to the generator's own loader, then to GeneratorData.from_dict
  structured the bytes drive FuzzedDataProvider choices of pointer mutations applied to a valid seed document
The semantic oracle sits inside the target: any exception that escapes is a crash, except those whose (type, innermost generator
frame) matches a known finding passed in VERIF_C06_KNOWN (they are counted so the campaign continues past them).
Run:  python -m engine.fuzz_c06 <corpus_dir> -runs=N -seed=S [-max_len=..]   (exit code != 0 and a crash-* file on a finding)
"""
from __future__ import annotations

import copy
import json
import os
import sys
import traceback

_here = os.path.dirname(os.path.abspath(__file__))
sys.path[:] = [p for p in sys.path if os.path.abspath(p or ".") != _here]
sys.path.insert(0, os.path.dirname(_here))
# the tree under test must be imported for the first time *inside* instrument_imports, so the path set-up of
# env.bootstrap is repeated here without importing it
_VERIF = os.path.dirname(_here)
_REPO = os.path.abspath(os.environ.get("VERIF_REPO", "/repo"))
sys.path.insert(0, _REPO)
sys.path.append(os.path.join(_VERIF, ".deps"))

import atheris  # noqa: E402

with atheris.instrument_imports(include=["openapi_python_client"]):
    import openapi_python_client as opc  # noqa: F401
    from openapi_python_client import _load_yaml_or_json
    from openapi_python_client.parser import GeneratorData
    from openapi_python_client.parser.errors import GeneratorError

from engine import env  # noqa: E402

env.bootstrap(reexec=False)   # asserts that the instrumented package really came from the tree under test
from engine import sut  # noqa: E402
from engine.props import c06  # noqa: E402

KNOWN = json.loads(os.environ.get("VERIF_C06_KNOWN", "[]"))
STATS = {"known": 0, "execs": 0, "parsed": 0}
LAST: dict = {"case": None}   # the current input as a directly replayable C06 case
CONFIG = sut.make_config(os.path.join(_here, "nonexistent.json"), None)

SEED_DOCS = []
for name in ("baseline_openapi_3.0.json",):
    p = os.path.join(env.REPO, "end_to_end_tests", name)
    try:
        d = json.load(open(p))
        # keep the seed small: a handful of paths and schemas
        d["paths"] = dict(list(d["paths"].items())[:6])
        SEED_DOCS.append(d)
    except Exception:
        pass
SEED_DOCS.append({"openapi": "3.0.3", "info": {"title": "t", "version": "1"},
                  "paths": {"/a/{id}": {"get": {"parameters": [{"name": "id", "in": "path", "required": True, "schema": {"type": "string"}}],
                                                "requestBody": {"content": {"application/json": {"schema": {"$ref": "#/components/schemas/A"}}}},
                                                "responses": {"200": {"description": "ok", "content": {"application/json": {"schema": {"$ref": "#/components/schemas/B"}}}}}}}},
                  "components": {"schemas": {"A": {"type": "object", "properties": {"x": {"type": "string", "enum": ["a", "b"]}, "b": {"$ref": "#/components/schemas/B"}}},
                                             "B": {"allOf": [{"$ref": "#/components/schemas/A"}, {"type": "object", "properties": {"n": {"type": "integer", "default": 1}}}]}}}})


def _is_known(exc) -> bool:
    site = sut.exc_site(exc)
    for k in KNOWN:
        # keys the campaign cannot compute (flags derived from the input file, process signals) are not compared here: the input the
        # campaign stops on is re-judged by the check's normal path, which computes them
        kk = {a: b for a, b in k.items() if a in ("exc", "file", "func")}
        if kk and all((site.get(a) in b) if isinstance(b, list) else (site.get(a) == b) for a, b in kk.items()):
            return True
    return False


def _judge(fn):
    try:
        return fn()
    except BaseException as e:  # noqa: BLE001
        if isinstance(e, (KeyboardInterrupt, SystemExit)):
            raise
        if _is_known(e):
            STATS["known"] += 1
            return None
        sys.stderr.write("ESCAPED-EXCEPTION " + json.dumps(sut.exc_site(e)) + "\n" + "".join(traceback.format_exception(e))[-1500:] + "\n")
        dump = os.environ.get("VERIF_C06_DUMP")
        if dump and LAST.get("case") is not None:
            try:
                with open(dump, "w", encoding="utf-8") as fh:
                    json.dump(LAST["case"], fh)
            except Exception:
                pass
        raise


def test_one_input(data: bytes) -> None:
    STATS["execs"] += 1
    if not data:
        return
    mode = data[0] % 3
    body = data[1:]
    if mode == 0:
        ctype = "application/json" if (len(body) and body[0] % 2 == 0) else "application/yaml"
        LAST["case"] = {"kind": "bytes", "data": body[1:].decode("latin-1"), "suffix": ".json" if ctype.endswith("json") else ".yaml",
                        "cli": False, "fow": False, "meta": "none"}
        doc = _judge(lambda: _load_yaml_or_json(body[1:], ctype))
        if doc is None or isinstance(doc, GeneratorError):
            return
        STATS["parsed"] += 1
        _judge(lambda: GeneratorData.from_dict(doc, config=CONFIG))
        return
    fdp = atheris.FuzzedDataProvider(body)
    doc = copy.deepcopy(SEED_DOCS[fdp.ConsumeIntInRange(0, len(SEED_DOCS) - 1)])
    n = fdp.ConsumeIntInRange(1, 4)
    junk_pool = c06.SCHEMA_JUNK + c06.REF_JUNK + c06.VALUE_JUNK
    for _ in range(n):
        sel = fdp.ConsumeIntInRange(0, 10**6)
        op = ["replace", "merge", "delete", "dup", "wrap", "rename"][fdp.ConsumeIntInRange(0, 5)]
        junk = junk_pool[fdp.ConsumeIntInRange(0, len(junk_pool) - 1)]
        if fdp.ConsumeBool():
            junk = fdp.ConsumeUnicodeNoSurrogates(12)
        try:
            doc = c06.mutate(doc, sel, op, junk, at_schema=fdp.ConsumeBool())
        except Exception:
            return
    STATS["parsed"] += 1
    LAST["case"] = {"kind": "doc", "doc": doc, "yaml": False, "cli": False, "fow": False, "meta": "none"}
    _judge(lambda: GeneratorData.from_dict(doc, config=CONFIG))


def main():
    atheris.Setup(sys.argv, test_one_input)
    atheris.Fuzz()


if __name__ == "__main__":
    main()
