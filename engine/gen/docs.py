"""Document IR (plain JSON-able dicts), Hypothesis strategies for it, and the renderer to OpenAPI.

Schema IR
  {"k": "str"|"int"|"num"|"bool"|"date"|"datetime"|"uuid"|"any"|"null"|"binary"|"strfmt"}   scalars
  {"k": "enum", "base": "str"|"int", "values": [...], "null": bool}
  {"k": "const", "value": v}
  {"k": "array", "items": S}
  {"k": "object", "props": [[name, S, required], ...], "addl": None|True|False|S, "allOf": [S, ...]}
  {"k": "union", "members": [S, ...], "how": "anyOf"|"oneOf"}
  {"k": "ref", "name": component}
  decorations on any node: "nullable": bool, "default": json, "desc": str, "title": str

Doc IR
  {"version": "3.0.3"|"3.1.0", "title": str, "schemas": [[name, S], ...], "ops": [Op, ...]}
  Op = {"path": "/a/{p}", "method": "get", "opid": str|None, "tags": [..], "summary": str, "security": bool,
        "params": [{"name","in","required","schema": S, "level": "op"|"path"}],
        "body": None | {"required": bool, "content": [[media_type, S], ...]},
        "responses": [[status, None | [media_type, S|None]], ...]}
"""
from __future__ import annotations

import copy
from typing import Any

from hypothesis import strategies as st

# one chain: of any two names one is a (word-aligned) suffix of the other
AFFIX_WORDS = ["Pet", "NewPet", "OldNewPet", "VeryOldNewPet", "MyVeryOldNewPet", "NotMyVeryOldNewPet", "AbsolutelyNotMyVeryOldNewPet"]
PREFIX_WORDS = ["Road", "RoadSign", "RoadSignPost", "RoadSignPostCode", "RoadSignPostCodeArea", "RoadSignPostCodeAreaMap"]   # each the beginning of the next
COMP_WORDS = ["Alpha", "Bravo", "Charlie", "Delta", "Echo", "Foxtrot", "Golf", "Hotel", "India", "Juliet", "Kilo", "Lima"]
PROP_WORDS = ["mike", "november", "oscar", "papa", "quebec", "romeo", "sierra", "tango", "uniform", "victor",
              "whiskey", "xray", "yankee", "zulu"]
SECOND_WORDS = ["one", "two", "red", "blue", "north", "south"]
OP_WORDS = ["fetch", "create", "update", "remove", "search", "ping", "upload", "verify", "submit", "inspect"]
TAGS = ["tagone", "tagtwo", "tagthree"]
SEGMENTS = ["items", "things", "v1", "res", "data"]
METHODS = ["get", "put", "post", "delete", "options", "head", "patch", "trace"]
STATUSES = [200, 201, 202, 204, 400, 401, 403, 404, 409, 422, 500, 503]

SCALARS = ["str", "int", "num", "bool", "date", "datetime", "uuid"]


def style_name(first: str, second: str | None, style: str) -> str:
    if second is None:
        return first
    if style == "camel":
        return first + second.capitalize()
    if style == "snake":
        return f"{first}_{second}"
    if style == "kebab":
        return f"{first}-{second}"
    if style == "pascal":
        return first.capitalize() + second.capitalize()
    return first + second


@st.composite
def safe_names(draw, n: int, words=PROP_WORDS, styles=("camel", "snake", "kebab", "plain")) -> list[str]:
    firsts = draw(st.lists(st.sampled_from(words), min_size=n, max_size=n, unique=True))
    out = []
    for f in firsts:
        second = draw(st.one_of(st.none(), st.sampled_from(SECOND_WORDS)))
        out.append(style_name(f, second, draw(st.sampled_from(styles))))
    return out


# ------------------------------------------------------------------------------------------ profiles

# request media types as documents really spell them: with parameters, and custom types that only the content_type_overrides option
# makes usable (ALIAS_MEDIA: the configuration maps the key to the value). The declared key is what must be sent.
JSON_MEDIA_SPELLINGS = ["application/json; version=2", "application/json;charset=utf-8", "application/vnd.api+json; profile=x",
                        "application/vnd.acme.widget", "application/x-acme-json; v=1"]
FORM_MEDIA_SPELLINGS = ["application/x-www-form-urlencoded; charset=utf-8", "application/x-acme-form"]
OCTET_MEDIA_SPELLINGS = ["application/octet-stream; x=1", "application/x-acme-bytes"]
ALIAS_MEDIA = {"application/vnd.acme.widget": "application/json", "application/x-acme-json; v=1": "application/json",
               "application/x-acme-form": "application/x-www-form-urlencoded", "application/x-acme-bytes": "application/octet-stream"}


def media_base(mt: str) -> str:
    """The media type a (possibly parameterised or aliased) request media type key behaves as."""
    mt = ALIAS_MEDIA.get(mt, mt)
    return mt.split(";")[0].strip()


def media_overrides(ir: dict) -> dict:
    """content_type_overrides entries the document's request media types need."""
    out = {}
    for op in ir.get("ops", []):
        for c in (op.get("body") or {}).get("content", []):
            if c[0] in ALIAS_MEDIA:
                out[c[0]] = ALIAS_MEDIA[c[0]]
    return out


DEFAULT_PROFILE: dict[str, Any] = {
    "scalars": SCALARS,
    "any": True,            # untyped schemas
    "enum": True,
    "const": True,
    "union": True,
    "array": True,
    "object_inline": True,
    "ref": True,
    "nullable": True,
    "defaults": False,
    "addl": True,
    "allof": True,
    "max_depth": 2,
    "max_schemas": 4,
    "max_props": 4,
    "max_ops": 3,
    "null_in_enum": True,
    "desc": False,
    "int_enum": True,
    "optional_const_bool": True,    # was a C01 defect (fixed: 5477ace); kept as a switch for the regression replay
    "dup_enum_keys": False,         # C06 finding: member names that coincide crash the generator
    "date_datetime_union": False,   # C02 finding
    "two_array_union": False,       # C02 finding
    "bool_intenum_union": False,    # C02/C14 finding: JSON true/false taken for the integer members 1/0
    "closed_union_member": False,   # C02 finding: a closed (additionalProperties: false) object member swallows a sibling's value
    "versions": ["3.0.3", "3.1.0"],
    "bodies": True,
    "multipart": True,
    "form": True,
    "octet": True,
    "header_uuid": False,           # C03 finding
    "cookie_nonstring": False,      # C03 finding
    "text_responses": True,
    "security": True,
    "multi_body_multipart": False,  # C03 finding: multipart next to another media type loses its boundary
    "multi_body_array": False,      # C03 finding: isinstance(body, list[...]) in the multi-body dispatch raises TypeError
    "const_float": True,            # C11 finding when False: Literal[1.5] is not a valid type
    "inline_allof": False,          # inline property schemas that are allOf compositions of a (forward) component reference
    "odd_media_pairs": False,       # binary under text/* or JSON, integer under text/*: accepted by the generator
    "component_unions": False,      # top-level union / array component schemas (forward references inside them)
    "multipart_const": True,        # was a C06 crash (fixed); switch kept for the regression replay
    "prefix_items": False,          # tuple-like arrays written with 3.1 prefixItems (+ items)
    "quote_enum_values": False,     # string enum values containing quote characters, braces, backticks
    "multipart_models": False,      # multipart parts that are models / unions with a model (sent as JSON parts)
    "const_everywhere": False,      # const schemas also as parameters, bodies, responses, array items and union members
    "media_spellings": False,       # request media types with parameters / custom types mapped by content_type_overrides
}


def profile(**over) -> dict:
    p = dict(DEFAULT_PROFILE)
    p.update(over)
    return p


# ------------------------------------------------------------------------------------------ schema strategies

ENUM_QUOTED_VALUES = ['say "hi"', "it's", '27"', "a'b\"c", "{x}", "`tick`"]   # quotes are data too (models only: not placed in URLs)
ENUM_STR_VALUES = ["aa", "bb", "cc", "dd-ee", "ff gg", "Hh", "i1", "9z", "", "jj_kk"]


@st.composite
def enum_ir(draw, prof, allow_null=True):
    base = draw(st.sampled_from(["str", "int"] if prof["int_enum"] else ["str"]))
    if base == "str":
        pool = ENUM_STR_VALUES + (ENUM_QUOTED_VALUES if prof.get("quote_enum_values") else [])
        vals = draw(st.lists(st.sampled_from(pool), min_size=1, max_size=4, unique_by=lambda v: v.upper()))
    else:
        vals = draw(st.lists(st.integers(-5, 20), min_size=1, max_size=4, unique=True))
    has_null = bool(allow_null and prof["null_in_enum"] and prof["nullable"] and draw(st.integers(0, 4)) == 0)
    return {"k": "enum", "base": base, "values": vals, "null": has_null}


@st.composite
def const_ir(draw, prof):
    v = draw(st.one_of(st.sampled_from(["fixed", "Other Value", "x-1"]), st.integers(-3, 9), st.booleans(),
                       st.sampled_from([1.5, -0.25]) if prof.get("const_float", True) else st.integers(10, 12)))
    return {"k": "const", "value": v}


def _scalar(kind: str) -> dict:
    return {"k": kind}


@st.composite
def schema_ir(draw, prof, comp_names: list[str], depth: int = 0, position: str = "prop") -> dict:
    """position in {"prop", "item", "member", "addl", "param", "body", "response", "component"}"""
    choices: list[str] = list(prof["scalars"])
    if prof["any"] and position not in ("member",):
        choices.append("any")
    if prof["enum"]:
        choices += ["enum", "enum"]
    if prof["const"] and (position in ("prop",) or (prof.get("const_everywhere") and position in ("param", "response", "body", "item", "member"))):
        choices.append("const")
    if prof["ref"] and comp_names:
        choices += ["ref", "ref", "ref"]
    if depth < prof["max_depth"]:
        if prof["array"]:
            choices += ["array", "array"]
        if prof["union"] and position not in ("member", "component"):
            choices += ["union"]
        if prof["object_inline"] and position in ("prop", "item", "addl", "body", "response", "member"):
            choices += ["object"]
    kind = draw(st.sampled_from(choices))
    if kind in SCALARS or kind in ("any", "null", "binary"):
        s = _scalar(kind)
    elif kind == "enum":
        s = draw(enum_ir(prof, allow_null=position in ("prop", "param")))
    elif kind == "const":
        s = draw(const_ir(prof))
    elif kind == "ref":
        s = {"k": "ref", "name": draw(st.sampled_from(comp_names))}
    elif kind == "array":
        s = {"k": "array", "items": draw(schema_ir(prof, comp_names, depth + 1, "item"))}
        if prof.get("prefix_items") and prof["union"] and position in ("prop", "item", "component") and draw(st.integers(0, 3)) == 0:
            # a tuple-like array (3.1 prefixItems [+ items]): the generator reads it as a list of the union of all listed schemas.
            # IR: items is that union, as_prefix says how many leading members are written under prefixItems (the rest, at most
            # one, under items). Instances are positional.
            un = draw(union_ir(prof, comp_names, depth + 1))
            for key in ("nullable", "desc", "default"):
                un.pop(key, None)
            un["how"] = "anyOf"
            n_members = len(un["members"])
            if n_members >= 2:
                s = {"k": "array", "items": un, "as_prefix": draw(st.sampled_from([n_members - 1, n_members - 1, n_members]))}
    elif kind == "union":
        s = draw(union_ir(prof, comp_names, depth))
    else:
        s = draw(object_ir(prof, comp_names, depth + 1))
        if prof.get("inline_allof") and comp_names and position == "prop" and draw(st.booleans()):
            # an inline composition: allOf [$ref to a component (often declared later), {own properties}]
            s["props"] = [[f"only{w.capitalize()}", {"k": draw(st.sampled_from(["str", "int", "bool"]))}, draw(st.booleans())]
                          for w in draw(st.lists(st.sampled_from(SECOND_WORDS), min_size=1, max_size=2, unique=True))]
            s["addl"] = None
            s["allOf"] = [{"k": "ref", "name": draw(st.sampled_from(comp_names))}]
    if prof["nullable"] and kind not in ("any", "enum", "const", "null") and draw(st.integers(0, 5)) == 0:
        s["nullable"] = True
    if prof.get("defaults") and position in ("prop", "param") and draw(st.integers(0, 3)) == 0:
        dv = {"str": "dflt", "int": 3, "num": 1.5, "bool": True, "date": "2020-01-02", "datetime": "2020-01-02T03:04:05+00:00",
              "uuid": "12345678-1234-5678-1234-567812345678"}.get(kind)
        if kind == "enum":
            dv = s["values"][0]
        if dv is not None:
            s["default"] = dv
    if prof["desc"] and draw(st.booleans()):
        s["desc"] = "text " + draw(st.sampled_from(["one", "two words", "three more words"]))
    return s


def _json_class(s: dict) -> str:
    """Which JSON type(s) a member occupies, for building distinguishable unions."""
    k = s["k"]
    if k in ("str", "date", "datetime", "uuid", "strfmt", "binary"):
        return "string"
    if k in ("int", "num"):
        return "number"
    if k == "bool":
        return "boolean"
    if k == "enum":
        return "string" if s["base"] == "str" else "number"
    if k == "array":
        return "array"
    if k in ("object", "ref"):
        return "objectish"
    return k


@st.composite
def union_ir(draw, prof, comp_names, depth):
    n = draw(st.integers(2, 3))
    members = []
    all_objects = prof["object_inline"] and draw(st.integers(0, 3)) == 0   # unions of sibling object shapes
    for _ in range(n):
        if all_objects:
            members.append(draw(object_ir(prof, comp_names, depth + 2, min_props=1)))
        else:
            members.append(draw(schema_ir(prof, comp_names, depth + 1, "member")))
    # avoid the two narrow classes that are listed C02 findings unless the profile asks for them
    kinds = [m["k"] for m in members]
    if not prof["date_datetime_union"] and "date" in kinds and "datetime" in kinds:
        members = [m for m in members if m["k"] != "datetime"]
    if not prof["two_array_union"] and kinds.count("array") > 1:
        seen = False
        kept = []
        for m in members:
            if m["k"] == "array":
                if seen:
                    continue
                seen = True
            kept.append(m)
        members = kept
    if not prof.get("bool_intenum_union"):
        def _is_int_enum(m):
            return m["k"] == "enum" and m["base"] == "int"
        if any(m["k"] == "bool" for m in members) and any(_is_int_enum(m) or m["k"] == "ref" for m in members):
            members = [m for m in members if m["k"] != "bool"]
    objs = [m for m in members if m["k"] == "object" and m.get("props")]
    if len(objs) >= 2 and draw(st.integers(0, 3)) > 0:
        first = objs[0]
        for other in objs[1:]:
            for i, p in enumerate(other["props"]):
                if i < len(first["props"]) and (i == 0 or draw(st.booleans())):
                    _n = lambda x: x.lower().replace("_", "").replace("-", "")  # noqa: E731
                    if any(j != i and _n(q[0]) == _n(first["props"][i][0]) for j, q in enumerate(other["props"])):
                        continue   # the shared key must not coincide with another key of this member (name merging is C09's)
                    p[0] = first["props"][i][0]
                    if draw(st.integers(0, 3)) > 0:
                        # same key, different JSON type: the decoder must fall through the first branch cleanly
                        first["props"][i][1] = {"k": draw(st.sampled_from(["uuid", "uuid", "date", "datetime"]))}
                        first["props"][i][2] = True
                        p[1] = {"k": draw(st.sampled_from(["int", "bool", "num"]))}
                        p[2] = True
    # sibling object members that declare one key with *different schemas of the same JSON type* (date vs date-time, string vs
    # enum) cannot be told apart by a decoder that takes the first member whose from_dict does not raise (listed: KF-C11-06 /
    # KF-C04-02): the key is renamed in the later member, counted by the caller's evidence through the name
    seen_keys: dict[str, dict] = {}
    for m in members:
        if m["k"] != "object":
            continue
        for p_ in m.get("props", []):
            prev = seen_keys.get(p_[0])
            if prev is not None and prev != p_[1] and _json_class(prev) == _json_class(p_[1]) and not prof.get("ambiguous_object_members"):
                p_[0] = p_[0] + "Alt"
            else:
                seen_keys.setdefault(p_[0], p_[1])
    if not prof.get("closed_union_member"):
        for m in members:
            if m["k"] == "object" and m.get("addl") is False:
                m["addl"] = None
    for m in members:
        m.pop("nullable", None)
    if len(members) < 2:
        members.append({"k": "int"} if members and _json_class(members[0]) in ("string", "objectish") else {"k": "str"})
    return {"k": "union", "members": members, "how": draw(st.sampled_from(["anyOf", "oneOf"]))}


@st.composite
def object_ir(draw, prof, comp_names, depth, allow_allof=False, min_props=0):
    n = draw(st.integers(min_props, prof["max_props"]))
    names = draw(safe_names(n))
    props = []
    for nm in names:
        sch = draw(schema_ir(prof, comp_names, depth, "prop"))
        req = draw(st.booleans())
        if sch["k"] == "const" and isinstance(sch["value"], bool) and not req and not prof["optional_const_bool"]:
            req = True
        props.append([nm, sch, req])
    if prof.get("inline_allof") and prof["enum"] and prof["null_in_enum"] and any(p[1].get("k") == "object" and p[1].get("allOf") for p in props) \
            and draw(st.booleans()):
        # a property whose schema the generator rewrites in place (enum with a null member) *before* one that makes the
        # whole model be processed a second time (composition of a component declared later): both parses must agree
        e = draw(enum_ir(prof, allow_null=True))
        e["null"] = True
        props.insert(0, ["firstNullable", e, draw(st.booleans())])
    addl: Any = None
    if prof["addl"]:
        a = draw(st.integers(0, 5))
        if a == 0:
            addl = False
        elif a == 1:
            addl = True
        elif a == 2 and depth <= prof["max_depth"]:
            addl = draw(schema_ir(prof, comp_names, depth + 1, "addl"))
            addl.pop("nullable", None)
    return {"k": "object", "props": props, "addl": addl, "allOf": []}


# ------------------------------------------------------------------------------------------ document strategies

@st.composite
def components(draw, prof, min_schemas=1):
    n = draw(st.integers(min_schemas, prof["max_schemas"]))
    names = draw(st.lists(st.sampled_from(COMP_WORDS), min_size=n, max_size=n, unique=True))
    if prof.get("affix_names") and draw(st.integers(1, 3 if prof["affix_names"] is True else int(prof["affix_names"]))) == 1:
        # names of which one is a suffix of another (Pet / NewPet / OldNewPet): string tests on names and references are easy to
        # get wrong exactly there
        names = draw(st.lists(st.sampled_from(draw(st.sampled_from([AFFIX_WORDS, AFFIX_WORDS, PREFIX_WORDS]))[:max(n, 6)]), min_size=n, max_size=n, unique=True))
        # allOf parents are chosen among earlier positions: longest first makes every child's name a suffix of its parent's
        names.sort(key=len, reverse=True)
    out = []
    for i, nm in enumerate(names):
        r = draw(st.integers(0, 9))
        if prof.get("component_unions") and draw(st.integers(0, 4)) == 0:
            un = draw(union_ir(profile(**{**prof, "object_inline": True}), names, 0))
            un.pop("nullable", None)
            un["_component_union"] = True
            shape = draw(st.integers(0, 2))
            if shape == 2 and len(names) > 1:
                # a top-level array of a referenced component (the reference may be written through a wrapper by C17)
                s = {"k": "array", "items": {"k": "ref", "name": draw(st.sampled_from([x for x in names if x != nm]))}}
            else:
                s = un if shape == 0 else {"k": "array", "items": un}
        elif r <= 5 or not prof["enum"]:
            s = draw(object_ir(prof, names, 1, min_props=0))
        elif r <= 7:
            s = draw(enum_ir(prof, allow_null=False))
        else:
            s = draw(object_ir(prof, names, 1, min_props=1))
        out.append([nm, s])
    # references out of a top-level union/array component go to object/enum components only (self and mutual references
    # between such components are documented as unsupported)
    plain = {nm for nm, sc in out if sc["k"] in ("object", "enum")}

    def _fix(sc):
        if sc.get("k") == "ref" and sc["name"] not in plain:
            if plain:
                sc["name"] = sorted(plain)[0]
            else:
                sc.clear()
                sc["k"] = "str"
        for key in ("items", "addl"):
            if isinstance(sc.get(key), dict):
                _fix(sc[key])
        for m in sc.get("members", []) + sc.get("allOf", []):
            _fix(m)
        for pp in sc.get("props", []):
            _fix(pp[1])

    for nm, sc in out:
        if sc["k"] in ("union", "array"):
            _fix(sc)
    # inline compositions (allOf inside a property) must point at an *object* component that does not lead back to the
    # component holding them (recursive allOf is documented as unsupported)
    if prof.get("inline_allof"):
        cmap0 = dict(out)
        objs0 = [nm for nm, sc in out if sc["k"] == "object"]

        def _fix_inline(sc, owner):
            for pp in sc.get("props", []):
                t = pp[1]
                if t.get("k") == "object" and t.get("allOf"):
                    ok = [n for n in objs0 if n != owner and not reaches(cmap0, n, owner)]
                    ref = t["allOf"][0]
                    if ref.get("name") not in ok:
                        if ok:
                            ref["name"] = ok[-1]   # prefer one declared later: the model is then processed twice
                        else:
                            t["allOf"] = []
                    if t["allOf"]:
                        tgt = cmap0.get(ref["name"], {})
                        for anc in [tgt] + [cmap0[n] for n in cmap0 if reaches(cmap0, ref["name"], n) and cmap0[n].get("k") == "object"]:
                            if anc.get("addl") is False or isinstance(anc.get("addl"), dict):
                                anc["addl"] = None   # JSON Schema would apply it to the inline member's own properties
                _fix_inline(t, owner)
            for key in ("items", "addl"):
                if isinstance(sc.get(key), dict):
                    _fix_inline(sc[key], owner)
            for m in sc.get("members", []):
                _fix_inline(m, owner)

        for nm, sc in out:
            _fix_inline(sc, nm)
    # allOf composition between object components (acyclic: only to earlier-declared *position* in a shuffled order)
    if prof["allof"]:
        objs = [i for i, (_, s) in enumerate(out) if s["k"] == "object"]
        for idx in objs:
            if len(objs) > 1 and draw(st.integers(1, int(prof.get("allof_one_in", 5)))) == 1:
                cmap = dict(out)
                # the parent must not reach the child through references (a parent that refers back to its
                # allOf child makes the generator drop both with a diagnostic; such documents are not "clean")
                cands = [j for j in objs if j < idx and not reaches(cmap, out[j][0], out[idx][0])]
                if cands:
                    parent = out[draw(st.sampled_from(cands))]
                    # no shared property names (shared names are C15's subject)
                    pnames = {p[0].lower().replace("_", "").replace("-", "") for p in _all_props(parent[1], dict(out))}
                    child = out[idx][1]
                    child["props"] = [p for p in child["props"]
                                      if p[0].lower().replace("_", "").replace("-", "") not in pnames
                                      and _first_word(p[0]) not in {_first_word(q[0]) for q in _all_props(parent[1], dict(out))}]
                    if not child["props"]:
                        continue
                    if child.get("addl") is False or isinstance(child.get("addl"), dict):
                        child["addl"] = None  # JSON Schema applies it to the parent's properties too: a trap, not a case
                    for anc in [parent[1]] + [cmap[n] for n in cmap if reaches(cmap, parent[0], n) and cmap[n].get("k") == "object"]:
                        if anc.get("addl") is False or isinstance(anc.get("addl"), dict):
                            anc["addl"] = None  # same trap in the other direction
                    child["allOf"] = [{"k": "ref", "name": parent[0]}]
                    inherited_optional = [q[0] for q in _all_props(parent[1], cmap) if not q[2]]
                    if inherited_optional and draw(st.integers(0, 2)) == 0:
                        child["extra_required"] = draw(st.lists(st.sampled_from(inherited_optional), min_size=1, max_size=2, unique=True))
    if draw(st.booleans()):
        order = draw(st.permutations(range(len(out))))
        out = [out[i] for i in order]
    return out


def refs_of(s, acc=None) -> set:
    acc = set() if acc is None else acc
    if not isinstance(s, dict):
        return acc
    if s.get("k") == "ref":
        acc.add(s.get("name"))
    for key in ("items", "addl"):
        if isinstance(s.get(key), dict):
            refs_of(s[key], acc)
    for m in s.get("members", []) + s.get("allOf", []):
        refs_of(m, acc)
    for p in s.get("props", []):
        refs_of(p[1], acc)
    return acc


def reaches(cmap: dict, a: str, b: str) -> bool:
    seen, todo = set(), [a]
    while todo:
        x = todo.pop()
        if x == b:
            return True
        if x in seen or x not in cmap:
            continue
        seen.add(x)
        todo.extend(refs_of(cmap[x]))
    return False


def _first_word(n: str) -> str:
    for w in PROP_WORDS:
        if n.lower().startswith(w):
            return w
    return n.lower()


def _all_props(s: dict, comps: dict, seen=None) -> list:
    seen = seen or set()
    props = list(s.get("props", []))
    for m in s.get("allOf", []):
        if m["k"] == "ref" and m["name"] in comps and m["name"] not in seen:
            seen.add(m["name"])
            props += _all_props(comps[m["name"]], comps, seen)
        elif m["k"] == "object":
            props += _all_props(m, comps, seen)
    return props


PARAM_KINDS = {
    "query": ["str", "int", "num", "bool", "date", "datetime", "uuid", "enum", "array"],
    "path": ["str", "int", "num", "bool", "date", "datetime", "uuid", "enum"],
    "header": ["str", "int", "num", "bool", "enum"],
    "cookie": ["str", "enum_str"],
}


@st.composite
def param_schema(draw, prof, loc: str, comp_names) -> dict:
    kinds = list(PARAM_KINDS[loc])
    if loc == "header" and prof["header_uuid"]:
        kinds.append("uuid")
    if loc == "cookie" and prof["cookie_nonstring"]:
        kinds += ["int", "bool", "uuid", "date"]
    if prof.get("const_everywhere") and loc in ("query", "path", "cookie"):
        kinds.append("const")
    k = draw(st.sampled_from(kinds))
    if k == "const":
        return draw(const_ir(prof))
    if k == "enum":
        return draw(enum_ir(profile(**{**prof, "null_in_enum": False}), allow_null=False))
    if k == "enum_str":
        return draw(enum_ir(profile(**{**prof, "null_in_enum": False, "int_enum": False}), allow_null=False))
    if k == "array":
        ik = draw(st.sampled_from(["str", "int", "num", "bool", "date", "uuid", "enum"]))
        item = draw(enum_ir(profile(**{**prof, "null_in_enum": False}), allow_null=False)) if ik == "enum" else {"k": ik}
        return {"k": "array", "items": item}
    return {"k": k}


@st.composite
def operation(draw, prof, comp_names, obj_names, opword: str, used_paths: set):
    n_path = draw(st.integers(0, 2))
    n_other = draw(st.integers(0, 3))
    names = draw(safe_names(n_path + n_other, styles=("camel", "snake", "kebab", "plain")))
    path_names = names[:n_path]
    segs = draw(st.lists(st.sampled_from(SEGMENTS), min_size=1, max_size=2))
    parts = list(segs) + ["{" + p + "}" for p in path_names]
    parts = draw(st.permutations(parts)) if draw(st.booleans()) else parts
    path = "/" + "/".join(parts)
    method = draw(st.sampled_from(METHODS))
    if path in used_paths:  # one operation per path item, so path-level parameters belong to exactly one operation
        path = path + "/" + opword
    used_paths.add(path)
    params = []
    for p in path_names:
        params.append({"name": p, "in": "path", "required": True,
                       "schema": draw(param_schema(prof, "path", comp_names)),
                       "level": draw(st.sampled_from(["op", "op", "path"]))})
    for nm in names[n_path:]:
        loc = draw(st.sampled_from(["query", "query", "header", "cookie"]))
        wire = nm
        if loc == "header":
            wire = "X-" + nm.replace("_", "-")
        params.append({"name": wire, "in": loc, "required": draw(st.booleans()),
                       "schema": draw(param_schema(prof, loc, comp_names)),
                       "level": draw(st.sampled_from(["op", "op", "op", "path"]))})
    # the same wire name in a second location (the generator must keep both apart), at either level
    others = [p for p in params if p["in"] in ("query", "cookie")]
    if others and prof.get("same_name_locations", True) and draw(st.integers(0, 3)) == 0:
        src = draw(st.sampled_from(others))
        loc2 = draw(st.sampled_from([l for l in ("query", "header", "cookie") if l != src["in"]]))
        sch2 = draw(param_schema(prof, loc2, comp_names))
        if sch2["k"] == "enum" or (sch2["k"] == "array" and sch2["items"]["k"] == "enum"):
            sch2 = {"k": "str"}  # two inline enums under one name would (audibly) clash on the derived class name
        params.append({"name": src["name"], "in": loc2, "required": draw(st.booleans()),
                       "schema": sch2,
                       "level": draw(st.sampled_from(["op", "path"]))})
    body = None
    if prof["bodies"] and method in ("post", "put", "patch", "delete") and draw(st.booleans()):
        body = draw(body_ir(prof, comp_names, obj_names))
    responses = draw(responses_ir(prof, comp_names))
    suffix = draw(st.sampled_from(["Thing", "Item", "_record", "-entry", ""]))
    return {
        "path": path, "method": method,
        "opid": None if draw(st.integers(0, 5)) == 0 else opword + suffix,
        "tags": draw(st.lists(st.sampled_from(TAGS), max_size=2, unique=True)),
        "summary": "", "security": bool(prof["security"] and draw(st.integers(0, 3)) == 0),
        "params": params, "body": body, "responses": responses,
    }


@st.composite
def body_ir(draw, prof, comp_names, obj_names):
    kinds = ["json"]
    if prof["form"]:
        kinds.append("form")
    if prof["multipart"]:
        kinds.append("multipart")
    if prof["octet"]:
        kinds.append("octet")
    chosen = draw(st.lists(st.sampled_from(kinds), min_size=1, max_size=2, unique=True))
    if len(chosen) > 1 and "multipart" in chosen and not prof.get("multi_body_multipart"):
        chosen = [c for c in chosen if c != "multipart"]
    content = []
    for kd in chosen:
        if kd == "json":
            mt = draw(st.sampled_from(["application/json", "application/vnd.api+json"] + (JSON_MEDIA_SPELLINGS if prof.get("media_spellings") else [])))
            sch = draw(schema_ir(profile(**{**prof, "const": bool(prof.get("const_everywhere")), "union": False}), obj_names or comp_names, 1, "body"))
            if sch["k"] in ("any",):
                sch = {"k": "str"}
            sch.pop("nullable", None)
            if len(chosen) > 1 and not prof.get("multi_body_array"):
                if sch["k"] == "array":
                    sch = sch["items"] if sch["items"]["k"] not in ("array", "any", "union") else {"k": "str"}
                    sch.pop("nullable", None)
                if sch["k"] in ("enum", "const") or (sch["k"] == "ref" and sch["name"] not in obj_names):
                    sch = {"k": "str"}  # a Literal[...] alias is a subscripted generic too (literal_enums; a const always is one)
            content.append([mt, sch])
        elif kd == "form":
            content.append([draw(st.sampled_from(["application/x-www-form-urlencoded"] * 3 + (FORM_MEDIA_SPELLINGS if prof.get("media_spellings") else [])))
                            if prof.get("media_spellings") else "application/x-www-form-urlencoded", draw(flat_object(prof))])
        elif kd == "multipart":
            content.append(["multipart/form-data", draw(flat_object(prof, files=True, obj_names=obj_names))])
        else:
            content.append([draw(st.sampled_from(["application/octet-stream"] * 3 + OCTET_MEDIA_SPELLINGS)) if prof.get("media_spellings")
                            else "application/octet-stream", {"k": "binary"}])
    return {"required": True, "content": content}


@st.composite
def flat_object(draw, prof, files=False, obj_names=()):
    n = draw(st.integers(1, 3))
    names = draw(safe_names(n))
    props = []
    for nm in names:
        kinds = ["str", "int", "num", "bool"]
        if files:
            kinds += ["binary", "binary"]
            if prof.get("multipart_const"):
                kinds.append("const")
            if prof.get("multipart_models") and obj_names:
                kinds += ["model", "model_or_int"]   # a part that is a JSON-encoded model (alone / as one alternative of a union)
        kd = draw(st.sampled_from(kinds))
        if kd in ("model", "model_or_int"):
            ref = {"k": "ref", "name": draw(st.sampled_from(sorted(obj_names)))}
            props.append([nm, ref if kd == "model" else {"k": "union", "members": [ref, {"k": "int"}], "how": "oneOf"}, draw(st.booleans())])
            continue
        props.append([nm, {"k": "const", "value": "fixed"} if kd == "const" else {"k": kd}, draw(st.booleans())])
    return {"k": "object", "props": props, "addl": False, "allOf": []}


@st.composite
def responses_ir(draw, prof, comp_names):
    n = draw(st.integers(1, 3))
    sts = draw(st.lists(st.sampled_from(STATUSES), min_size=n, max_size=n, unique=True))
    out = []
    for s in sts:
        r = draw(st.integers(0, 9))
        if r <= 1 or s == 204:
            out.append([s, None])
        elif r <= 7:
            mt = draw(st.sampled_from(["application/json", "application/json", "application/problem+json"]))
            sch = draw(schema_ir(profile(**{**prof, "const": bool(prof.get("const_everywhere"))}), comp_names, 1, "response"))
            sch.pop("nullable", None)
            if prof.get("odd_media_pairs") and draw(st.integers(0, 11)) == 0:
                sch = {"k": "binary"}
            out.append([s, [mt, sch]])
        elif r == 8 and prof["text_responses"]:
            # mostly the documented pairing (text -> string); sometimes a schema that does not fit the media type, which
            # the generator accepts too (the decoded value is then not asserted, but it must not disturb other responses)
            tsch = draw(st.sampled_from([{"k": "str"}, {"k": "str"}, {"k": "str"}, {"k": "binary"}, {"k": "int"}])) if prof.get("odd_media_pairs") else {"k": "str"}
            out.append([s, [draw(st.sampled_from(["text/plain", "text/html", "text/csv"])), tsch]])
        elif prof["octet"]:
            out.append([s, ["application/octet-stream", {"k": "binary"}]])
        else:
            out.append([s, None])
    return out


@st.composite
def doc_ir(draw, prof=None, min_schemas=1, min_ops=1):
    prof = prof or DEFAULT_PROFILE
    comps = draw(components(prof, min_schemas=min_schemas))
    comp_names = [c[0] for c in comps]
    obj_names = [c[0] for c in comps if c[1]["k"] == "object"]
    n_ops = draw(st.integers(min_ops, prof["max_ops"]))
    opwords = draw(st.lists(st.sampled_from(OP_WORDS), min_size=n_ops, max_size=n_ops, unique=True))
    used: set = set()
    ops = [draw(operation(prof, comp_names, obj_names, w, used)) for w in opwords]
    return {
        "version": draw(st.sampled_from(prof["versions"])),
        "title": "Verif API",
        "schemas": comps,
        "ops": ops,
    }


# ------------------------------------------------------------------------------------------ rendering

def render_schema(s: dict, ver: str = "3.0.3") -> dict:
    k = s.get("k")
    v31 = ver.startswith("3.1")
    out: dict[str, Any]
    nullable = bool(s.get("nullable"))
    if k == "str":
        out = {"type": "string"}
    elif k == "strfmt":
        out = {"type": "string", "format": s.get("format", "custom")}
    elif k == "int":
        out = {"type": "integer"}
    elif k == "num":
        out = {"type": "number"}
    elif k == "bool":
        out = {"type": "boolean"}
    elif k == "date":
        out = {"type": "string", "format": "date"}
    elif k == "datetime":
        out = {"type": "string", "format": "date-time"}
    elif k == "uuid":
        out = {"type": "string", "format": "uuid"}
    elif k == "binary":
        out = {"type": "string", "format": "binary"}
    elif k == "null":
        out = {"type": "null"}
    elif k == "any":
        out = {}
    elif k == "enum":
        vals = list(s.get("values", []))
        if s.get("null"):
            vals = vals + [None]
        out = {"type": "string" if s.get("base") == "str" else "integer", "enum": vals}
    elif k == "const":
        out = {"const": s.get("value")}
    elif k == "array" and s.get("as_prefix") and ver.startswith("3.1"):
        members = s["items"]["members"]
        n_pre = s["as_prefix"]
        out = {"type": "array", "prefixItems": [render_schema(m, ver) for m in members[:n_pre]]}
        if len(members) > n_pre:
            out["items"] = render_schema(members[n_pre], ver)
    elif k == "array":
        out = {"type": "array", "items": render_schema(s.get("items", {"k": "any"}), ver)}
    elif k == "union":
        out = {s.get("how", "anyOf"): [render_schema(m, ver) for m in s.get("members", [])]}
        if nullable:
            if v31:
                out[s.get("how", "anyOf")].append({"type": "null"})
            else:
                out["nullable"] = True
            nullable = False
    elif k == "ref":
        r = {"$ref": "#/components/schemas/" + str(s.get("name"))}
        if nullable:
            out = {"oneOf": [r, {"type": "null"}]} if v31 else {"allOf": [r], "nullable": True}
            nullable = False
        elif "default" in s or "desc" in s:
            out = {"allOf": [r]}
        else:
            return r
    elif k == "object":
        own: dict[str, Any] = {"type": "object"}
        props = s.get("props", [])
        if props:
            own["properties"] = {p[0]: render_schema(p[1], ver) for p in props}
            req = [p[0] for p in props if p[2]]
            if req:
                own["required"] = req
        if s.get("extra_required"):
            own["required"] = list(own.get("required", [])) + [n for n in s["extra_required"] if n not in own.get("required", [])]
        a = s.get("addl")
        addl_out: dict[str, Any] = {}
        if a is True or a is False:
            addl_out["additionalProperties"] = a
        elif isinstance(a, dict):
            addl_out["additionalProperties"] = render_schema(a, ver)
        if s.get("allOf"):
            members = [render_schema(m, ver) for m in s["allOf"]]
            if s.get("allof_style", "member") == "sibling":
                out = {**own, **addl_out, "allOf": members}
            else:
                if props or len(members) < 2:
                    if s.get("req_split") and own.get("required") and not s.get("extra_required"):
                        own_wo = {kk: vv for kk, vv in own.items() if kk != "required"}
                        members = members + [own_wo, {"required": own["required"]}]
                    else:
                        members = members + [own]
                out = {"allOf": members, **addl_out}
        else:
            out = {**own, **addl_out}
    elif k == "raw":
        return copy.deepcopy(s.get("schema", {}))
    else:
        out = {}
    if nullable:
        if v31 and "type" in out and not isinstance(out["type"], list):
            out["type"] = [out["type"], "null"]
        else:
            out["nullable"] = True
    if "default" in s:
        out["default"] = s["default"]
    if s.get("desc"):
        out["description"] = s["desc"]
    if s.get("title"):
        out["title"] = s["title"]
    return out


def render_param(p: dict, ver: str) -> dict:
    d = {"name": p["name"], "in": p["in"], "schema": render_schema(p["schema"], ver)}
    if p.get("required"):
        d["required"] = True
    return d


def render_op(op: dict, ver: str) -> dict:
    o: dict[str, Any] = {}
    if op.get("opid") is not None:
        o["operationId"] = op["opid"]
    if op.get("tags"):
        o["tags"] = list(op["tags"])
    if op.get("summary"):
        o["summary"] = op["summary"]
    if op.get("description"):
        o["description"] = op["description"]
    if op.get("security"):
        o["security"] = [{"bearer": []}]
    ps = [render_param(p, ver) for p in op.get("params", []) if p.get("level", "op") == "op"]
    if ps:
        o["parameters"] = ps
    b = op.get("body")
    if b:
        o["requestBody"] = {"required": bool(b.get("required", True)),
                            "content": {mt: {"schema": render_schema(s, ver)} for mt, s in b["content"]}}
    resp: dict[str, Any] = {}
    for status, r in op.get("responses", []):
        if r is None:
            resp[str(status)] = {"description": "none"}
        else:
            mt, s = r
            resp[str(status)] = {"description": "resp",
                                 "content": {mt: ({"schema": render_schema(s, ver)} if s is not None else {})}}
    o["responses"] = resp or {"200": {"description": "ok"}}
    return o


def render(doc: dict) -> dict:
    ver = doc.get("version", "3.0.3")
    out: dict[str, Any] = {
        "openapi": ver,
        "info": {"title": doc.get("title", "Verif API"), "version": doc.get("api_version", "1.0.0")},
        "paths": {},
    }
    if doc.get("description"):
        out["info"]["description"] = doc["description"]
    for op in doc.get("ops", []):
        item = out["paths"].setdefault(op["path"], {})
        item[op["method"]] = render_op(op, ver)
        pl = [render_param(p, ver) for p in op.get("params", []) if p.get("level") == "path"]
        if pl:
            existing = item.setdefault("parameters", [])
            have = {(q["name"], q["in"]) for q in existing}
            for q in pl:
                if (q["name"], q["in"]) not in have:
                    existing.append(q)
    comps: dict[str, Any] = {}
    if doc.get("schemas"):
        comps["schemas"] = {n: render_schema(s, ver) for n, s in doc["schemas"]}
    if any(op.get("security") for op in doc.get("ops", [])):
        comps["securitySchemes"] = {"bearer": {"type": "http", "scheme": "bearer"}}
    for extra in ("parameters", "requestBodies", "responses"):
        if doc.get(extra):
            comps[extra] = copy.deepcopy(doc[extra])
    if comps:
        out["components"] = comps
    return out


def comp_map(doc: dict) -> dict[str, dict]:
    return {n: s for n, s in doc.get("schemas", [])}
