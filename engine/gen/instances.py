"""Schema-valid / near-miss JSON instances from schema IR; strict JSON equality; JSON-Schema export for self-checks."""
from __future__ import annotations

import datetime as dt
import math
import uuid
from typing import Any

from hypothesis import strategies as st

MAX_DEPTH = 4


class Unsatisfiable(Exception):
    pass


def looks_formatted(s: str) -> bool:
    """True if a *plain* string could be taken for a date/date-time/uuid by a lenient parser."""
    from dateutil.parser import isoparse

    try:
        isoparse(s)
        return True
    except Exception:
        pass
    try:
        uuid.UUID(s)
        return True
    except Exception:
        return False


TEXT_ALPHABET = "abcxyzABZ019 _-./:+#@!?,;'\"\\{}()[]<>%&=*~^|`$\u00e9\u00df\u4e2d\U0001f600\n\t"

plain_text = st.text(alphabet=TEXT_ALPHABET, max_size=8).map(lambda s: ("s" + s) if looks_formatted(s) else s)

json_scalars = st.one_of(st.none(), st.booleans(), st.integers(-1000, 1000), st.sampled_from([0.5, -2.25, 1e10]),
                         plain_text)
any_json = st.one_of(json_scalars, st.lists(json_scalars, max_size=3),
                     st.dictionaries(st.sampled_from(["k1", "k2", "k 3"]), json_scalars, max_size=2))


def _dates():
    return st.dates(min_value=dt.date(1, 1, 1), max_value=dt.date(9999, 12, 31)).map(lambda d: d.isoformat())


@st.composite
def _datetimes(draw):
    base = draw(st.datetimes(min_value=dt.datetime(1, 1, 2), max_value=dt.datetime(9999, 12, 30)))
    if draw(st.booleans()):
        base = base.replace(microsecond=0)
    tz = draw(st.sampled_from([None, 0, 60, -330, 765]))
    if tz is not None:
        base = base.replace(tzinfo=dt.timezone(dt.timedelta(minutes=tz)))
    s = base.isoformat()
    from dateutil.parser import isoparse

    try:
        if isoparse(s).isoformat() != s:  # keep to fixpoints of the canonical form, as the property states
            s = base.replace(microsecond=0, tzinfo=None).isoformat()
    except Exception:
        s = "2020-01-02T03:04:05"
    return s


def _uuids():
    return st.uuids().map(str)


@st.composite
def instance(draw, s: dict, comps: dict, depth: int = 0, bias: str = "random") -> Any:
    """bias: "random" | "all" (every optional present) | "none" (every optional absent)."""
    k = s.get("k")
    if s.get("nullable") and draw(st.integers(0, 3)) == 0:
        return None
    if k == "str" or k == "strfmt":
        return draw(plain_text)
    if k == "int":
        return draw(st.one_of(st.integers(-100, 100), st.integers(-2**40, 2**40)))
    if k == "num":
        return draw(st.one_of(st.integers(-100, 100), st.floats(allow_nan=False, allow_infinity=False, width=64)))
    if k == "bool":
        return draw(st.booleans())
    if k == "date":
        return draw(_dates())
    if k == "datetime":
        return draw(_datetimes())
    if k == "uuid":
        return draw(_uuids())
    if k == "null":
        return None
    if k == "any":
        return draw(any_json)
    if k == "enum":
        vals = list(s["values"]) + ([None] if s.get("null") else [])
        return draw(st.sampled_from(vals))
    if k == "const":
        return s["value"]
    if k == "array":
        if depth >= MAX_DEPTH:
            return []
        if s.get("as_prefix"):
            # positional: element i comes from the i-th listed schema, elements past the prefix from the trailing 'items' schema
            members = s["items"]["members"]
            n_pre = s["as_prefix"]
            n = draw(st.integers(0, n_pre + (2 if len(members) > n_pre else 0)))
            return [draw(instance(members[min(i, n_pre)] if i < n_pre or len(members) > n_pre else members[-1], comps, depth + 1, bias))
                    for i in range(n)]
        n = draw(st.integers(0, 3))
        return [draw(instance(s["items"], comps, depth + 1, bias)) for _ in range(n)]
    if k == "union":
        i = draw(st.integers(0, len(s["members"]) - 1))
        return draw(instance(s["members"][i], comps, depth + 1, bias))
    if k == "ref":
        target = comps.get(s["name"])
        if target is None:
            raise Unsatisfiable(f"dangling {s['name']}")
        if depth > MAX_DEPTH + 2:
            raise Unsatisfiable("required reference cycle")
        return draw(instance(target, comps, depth + 1, bias))
    if k == "object":
        return draw(_object_instance(s, comps, depth, bias))
    raise Unsatisfiable(f"no instances for kind {k}")


def flatten_object(s: dict, comps: dict, seen=None) -> tuple[list, Any]:
    """All (name, schema, required) of an object incl. allOf members; and its additional-properties setting."""
    seen = seen or set()
    props: dict[str, list] = {}
    for m in s.get("allOf", []):
        t = m
        if m.get("k") == "ref":
            if m["name"] in seen or m["name"] not in comps:
                continue
            seen = seen | {m["name"]}
            t = comps[m["name"]]
        sub, _ = flatten_object(t, comps, seen)
        for p in sub:
            if p[0] in props:
                props[p[0]] = [p[0], props[p[0]][1], props[p[0]][2] or p[2]]
            else:
                props[p[0]] = list(p)
    for p in s.get("props", []):
        if p[0] in props:
            props[p[0]] = [p[0], p[1], props[p[0]][2] or p[2]]
        else:
            props[p[0]] = list(p)
    for n in s.get("extra_required", []):
        if n in props:
            props[n] = [n, props[n][1], True]
    return list(props.values()), s.get("addl")


@st.composite
def _object_instance(draw, s, comps, depth, bias):
    props, addl = flatten_object(s, comps)
    out: dict[str, Any] = {}
    for name, sch, req in props:
        if req:
            present = True
        elif depth >= MAX_DEPTH or bias == "none":
            present = False
        elif bias == "all":
            present = True
        else:
            present = draw(st.booleans())
        if present:
            out[name] = draw(instance(sch, comps, depth + 1, bias))
    declared = {p[0] for p in props}
    if addl is not False and depth < MAX_DEPTH and bias != "none" and draw(st.integers(0, 2)) == 0:
        n = draw(st.integers(1, 2))
        for i in range(n):
            key = draw(st.sampled_from(["extra1", "x-extra", "Extra Two", "extra_3"]))
            if key in declared:
                continue
            if isinstance(addl, dict):
                out[key] = draw(instance(addl, comps, depth + 1, bias))
            else:
                out[key] = draw(any_json)
    return out


# ------------------------------------------------------------------------------------------ equality

def json_eq(a: Any, b: Any) -> bool:
    """Strict JSON equality: bool is not a number, 1 == 1.0, key sets equal, list order significant."""
    if isinstance(a, bool) or isinstance(b, bool):
        return isinstance(a, bool) and isinstance(b, bool) and a == b
    if a is None or b is None:
        return a is None and b is None
    if isinstance(a, (int, float)) and isinstance(b, (int, float)):
        if isinstance(a, float) and math.isnan(a) or isinstance(b, float) and math.isnan(b):
            return False
        return a == b
    if isinstance(a, str) and isinstance(b, str):
        return a == b
    if isinstance(a, list) and isinstance(b, list):
        return len(a) == len(b) and all(json_eq(x, y) for x, y in zip(a, b))
    if isinstance(a, dict) and isinstance(b, dict):
        return set(a) == set(b) and all(json_eq(a[k], b[k]) for k in a)
    return False


def is_plain_json(v: Any) -> bool:
    if v is None or isinstance(v, (bool, int, str)):
        return type(v) in (type(None), bool, int, str)
    if isinstance(v, float):
        return type(v) is float
    if type(v) is list:
        return all(is_plain_json(x) for x in v)
    if type(v) is dict:
        return all(type(k) is str and is_plain_json(x) for k, x in v.items())
    return False


def first_diff(a: Any, b: Any, path: str = "$") -> str:
    if json_eq(a, b):
        return ""
    if isinstance(a, dict) and isinstance(b, dict):
        for k in sorted(set(a) | set(b)):
            if k not in a:
                return f"{path}.{k}: missing on left, right={b[k]!r}"
            if k not in b:
                return f"{path}.{k}: left={a[k]!r}, missing on right"
            d = first_diff(a[k], b[k], f"{path}.{k}")
            if d:
                return d
    if isinstance(a, list) and isinstance(b, list) and len(a) == len(b):
        for i, (x, y) in enumerate(zip(a, b)):
            d = first_diff(x, y, f"{path}[{i}]")
            if d:
                return d
    return f"{path}: {a!r} != {b!r}"


# ------------------------------------------------------------------------------------------ JSON Schema export

def to_jsonschema(s: dict, comps: dict) -> dict:
    defs = {n: _js(c) for n, c in comps.items()}
    root = _js(s)
    root = dict(root)
    root["$defs"] = defs
    root["$schema"] = "https://json-schema.org/draft/2020-12/schema"
    return root


def _js(s: dict) -> dict:
    k = s.get("k")
    if k in ("str", "strfmt", "date", "datetime", "uuid", "binary"):
        out: dict = {"type": "string"}
    elif k == "int":
        out = {"type": "integer"}
    elif k == "num":
        out = {"type": "number"}
    elif k == "bool":
        out = {"type": "boolean"}
    elif k == "null":
        out = {"type": "null"}
    elif k == "any":
        out = {}
    elif k == "enum":
        out = {"enum": list(s["values"]) + ([None] if s.get("null") else [])}
    elif k == "const":
        out = {"const": s["value"]}
    elif k == "array" and s.get("as_prefix"):
        members = s["items"]["members"]
        n_pre = s["as_prefix"]
        out = {"type": "array", "prefixItems": [_js(m) for m in members[:n_pre]]}
        out["items"] = _js(members[n_pre]) if len(members) > n_pre else False
    elif k == "array":
        out = {"type": "array", "items": _js(s["items"])}
    elif k == "union":
        out = {"anyOf": [_js(m) for m in s["members"]]}
    elif k == "ref":
        out = {"$ref": "#/$defs/" + s["name"]}
    elif k == "object":
        out = {"type": "object"}
        props = s.get("props", [])
        if props:
            out["properties"] = {p[0]: _js(p[1]) for p in props}
            out["required"] = [p[0] for p in props if p[2]]
        a = s.get("addl")
        if a is False:
            out["additionalProperties"] = False
        elif isinstance(a, dict):
            out["additionalProperties"] = _js(a)
        if s.get("extra_required"):
            out["required"] = list(out.get("required", [])) + list(s["extra_required"])
        if s.get("allOf"):
            out = {"allOf": [_js(m) for m in s["allOf"]] + [out]}
    else:
        out = {}
    if s.get("nullable") and k not in ("any", "null"):
        out = {"anyOf": [out, {"type": "null"}]}
    return out


_validator_cache: dict[str, Any] = {}


def self_check_valid(value: Any, s: dict, comps: dict) -> bool | None:
    """Cross-validate a generated instance with jsonschema. None if jsonschema is unavailable."""
    try:
        import jsonschema
    except Exception:
        return None
    from ..core import canon

    key = canon([s, comps])
    v = _validator_cache.get(key)
    if v is None:
        if len(_validator_cache) > 64:
            _validator_cache.clear()
        v = jsonschema.Draft202012Validator(to_jsonschema(s, comps))
        _validator_cache[key] = v
    try:
        return v.is_valid(value)
    except Exception:
        return None
