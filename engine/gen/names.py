"""Name pools: identifier-hostile but quote-free names (C01/C09), and helpers to keep scopes collision-free."""
from __future__ import annotations

import builtins
import keyword
import re
import unicodedata

from hypothesis import strategies as st

FORBIDDEN = set("'\"\\`{}") | {chr(i) for i in range(32)} | {"\x7f"}

KEYWORDS = list(keyword.kwlist) + list(keyword.softkwlist)
BUILTINS = [b for b in dir(builtins) if not b.startswith("__")]
TEMPLATE_WORDS = ["self", "client", "url", "kwargs", "response", "headers", "params", "cookies", "json", "data", "body",
                  "T", "Any", "Union", "cast", "UNSET", "Unset", "datetime", "isoparse", "UUID", "File", "models", "types",
                  "errors", "attrs", "Optional", "HTTPStatus", "httpx", "Response", "field", "define", "Literal", "Enum",
                  "return", "value", "name", "mro", "items", "keys", "values", "get", "pop", "update", "copy"]
SHAPES = ["my name", "my-name", "my.name", "my_name", "_leading", "trailing_", "__dunder__", "double__under", "a b c",
          "1st", "9", "123abc", "3.14", "0", "camelCase", "PascalCase", "UPPER_CASE", "HTTPResponse", "aB", "Ab", "ab", "AB",
          "ünïcode", "名前", "Ωmega", "naïve-name", "ß", "İstanbul", "ǅx", "٣abc", "x٣",
          "данные", "café au lait", "a$b", "a@b", "x/y", "a:b", "#tag", "100%", "a&b", "(a)", "a,b",
          "a;b", "a=b", "a?b", "[a]", "~a", "!a", "a+b", "a*b", "<a>", "a|b", "^a", "", "_", "-", ".", " ", "__", "- -", "...",
          "id", "ID", "Id", "type", "Type", "class", "Class", "CLASS", "None", "none", "True", "true", "def", "import", "match",
          "case", "_", "list", "List", "dict", "str", "int", "float", "bool", "bytes", "object", "print", "len", "async", "await",
          "x-request-id", "X-Request-ID", "Content-Type", "content_type", "user.name", "user name", "user-name", "userName",
          "UserName", "user_name", "USER_NAME", "a1", "a_1", "a-1", "A1", "v2.1", "2xx", "$ref", "@type", "odata.type",
          "long name with many words in it", "x" * 40]

NON_IDENT_WORDCHARS_EXAMPLES = ["a²", "½cup", "x①", "〡"]  # \w but not identifier characters (C09 finding class)


def is_nonident_wordchar(c: str) -> bool:
    """The independent definition of the C09 finding class: matched by \\w yet not an identifier character."""
    return bool(re.match(r"\w", c)) and not ("a" + c).isidentifier()


def has_nonident_wordchar(s: str) -> bool:
    return any(is_nonident_wordchar(c) for c in s)


def norm(s: str) -> str:
    """Conservative over-approximation of every normalisation the generator applies: names equal under it *may* merge."""
    s = unicodedata.normalize("NFKC", s)
    s = unicodedata.normalize("NFKC", s.upper().casefold())   # ß/SS, İ/i̇, ﬁ/FI ... : upper-casing is one of the generator's steps
    return "".join(ch for ch in s if ch.isalnum())


_extra_alpha = "abcXYZ019 _-.$@/:#%&(),;=?[]~!+*<>|^éß中٣İ"


def hostile_name(allow_nonident: bool = False):
    pool = SHAPES + KEYWORDS + BUILTINS[:60] + TEMPLATE_WORDS
    if allow_nonident:
        pool = pool + NON_IDENT_WORDCHARS_EXAMPLES
    base = st.one_of(
        st.sampled_from(pool),
        st.sampled_from(KEYWORDS).map(str.upper),
        st.sampled_from(KEYWORDS).map(str.capitalize),
        st.sampled_from(BUILTINS).map(lambda b: b.lower()),
        st.text(alphabet=_extra_alpha, min_size=0, max_size=10),
    )
    if allow_nonident:
        return base
    return base.filter(lambda s: not has_nonident_wordchar(s))


@st.composite
def distinct_hostile(draw, n: int, allow_nonident: bool = False, allow_empty: bool = True, alphabet_ok=None,
                     avoid=()) -> list[str]:
    """n hostile names pairwise distinct after norm() (so the generator can never legitimately merge two of them)."""
    out: list[str] = []
    seen = set(norm(a) for a in avoid)
    tries = 0
    while len(out) < n and tries < n * 12:
        tries += 1
        s = draw(hostile_name(allow_nonident))
        if any(ch in FORBIDDEN for ch in s):
            continue
        if alphabet_ok is not None and not alphabet_ok(s):
            continue
        k = norm(s)
        if not allow_empty and not k:
            continue
        if k in seen:
            continue
        seen.add(k)
        out.append(s)
    i = 0
    while len(out) < n:
        i += 1
        cand = f"fallback{i}"
        if norm(cand) not in seen:
            seen.add(norm(cand))
            out.append(cand)
    return out


PATH_PARAM_RE = re.compile(r"^[a-zA-Z_-][a-zA-Z0-9_-]*$")
HEADER_TOKEN_RE = re.compile(r"^[!#$%&'*+\-.^_`|~0-9A-Za-z]+$")
