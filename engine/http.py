"""Capturing transport, request decoding and the reference model of the wire."""
from __future__ import annotations

import asyncio
import datetime as dt
import email.parser
import email.policy
import enum
import inspect
import io
import json
import re
import typing
import urllib.parse
import uuid
from typing import Any

import httpx

from .gen.instances import json_eq


class Capture:
    def __init__(self, status: int = 418, content: bytes = b"", headers: dict | None = None):
        self.requests: list[dict] = []
        self.status = status
        self.content = content
        self.headers = headers or {}

    def handler(self, request: httpx.Request) -> httpx.Response:
        body = request.content  # MockTransport has already (a)read the request
        self.requests.append({
            "method": request.method,
            "raw_path": request.url.raw_path.decode("ascii", "replace"),
            "path": request.url.path,
            "query": list(request.url.params.multi_items()),
            "headers": [(k.decode("latin-1"), v.decode("latin-1")) for k, v in request.headers.raw],
            "content": body,
        })
        return httpx.Response(self.status, content=self.content, headers=self.headers)

    def transport(self) -> httpx.MockTransport:
        return httpx.MockTransport(self.handler)


def header_map(req: dict) -> dict[str, list[str]]:
    out: dict[str, list[str]] = {}
    for k, v in req["headers"]:
        out.setdefault(k.lower(), []).append(v)
    return out


def cookies_of(req: dict) -> dict[str, str]:
    out: dict[str, str] = {}
    for v in header_map(req).get("cookie", []):
        for part in v.split(";"):
            part = part.strip()
            if not part:
                continue
            name, _, val = part.partition("=")
            out[name] = val
    return out


def decode_multipart(req: dict) -> list[dict] | None:
    ct = header_map(req).get("content-type", [""])[0]
    if not ct.lower().startswith("multipart/form-data"):
        return None
    raw = b"Content-Type: " + ct.encode("latin-1") + b"\r\nMIME-Version: 1.0\r\n\r\n" + req["content"]
    msg = email.parser.BytesParser(policy=email.policy.HTTP).parsebytes(raw)
    parts = []
    if not msg.is_multipart():
        return parts
    for part in msg.iter_parts():
        cd = part.get("Content-Disposition", "")
        params = dict(part["Content-Disposition"].params) if part["Content-Disposition"] else {}
        parts.append({"name": params.get("name"), "filename": params.get("filename"),
                      "content_type": part.get_content_type() if part.get("Content-Type") else None,
                      "payload": part.get_payload(decode=True)})
    return parts


# ------------------------------------------------------------------------------------------ python values

def to_python(value: Any, s: dict, comps: dict, enum_cls_lookup=None) -> Any:
    """JSON instance -> the Python argument a user of the generated client would pass (harness' own reference)."""
    from dateutil.parser import isoparse

    k = s.get("k")
    if value is None:
        return None
    if k == "ref":
        t = comps.get(s["name"])
        return to_python(value, t, comps, enum_cls_lookup) if t else value
    if k == "date":
        return dt.date.fromisoformat(value)
    if k == "datetime":
        return isoparse(value)
    if k == "uuid":
        return uuid.UUID(value)
    if k == "enum":
        cls = enum_cls_lookup(s) if enum_cls_lookup else None
        return cls(value) if cls is not None else value
    if k == "array":
        return [to_python(v, s["items"], comps, enum_cls_lookup) for v in value]
    return value


def enum_class_from_annotation(ann: Any):
    """Find an Enum subclass inside a (possibly nested) annotation; None for Literal-style enums."""
    seen = []

    def walk(a):
        if isinstance(a, type) and issubclass(a, enum.Enum):
            seen.append(a)
            return
        for x in typing.get_args(a):
            walk(x)

    walk(ann)
    return seen[0] if seen else None


def parse_back(text: str, s: dict, comps: dict) -> Any:
    """Typed parse-back of a transmitted text according to the *declared* kind. Raises ValueError if impossible."""
    from dateutil.parser import isoparse

    k = s.get("k")
    if k == "ref":
        return parse_back(text, comps[s["name"]], comps)
    if k in ("str", "strfmt"):
        return text
    if k == "int":
        return int(text)
    if k == "num":
        return float(text)
    if k == "bool":
        if text.lower() in ("true", "false"):
            return text.lower() == "true"
        raise ValueError(f"not a boolean text: {text!r}")
    if k == "date":
        if "T" in text or " " in text:
            raise ValueError(f"date transmitted with a time part: {text!r}")
        return isoparse(text).date().isoformat()
    if k == "datetime":
        return isoparse(text)
    if k == "uuid":
        return str(uuid.UUID(text))
    if k == "enum":
        if s["base"] == "int":
            return int(text)
        return text
    if k == "const":
        return text
    return text


def value_equals(parsed: Any, value: Any, s: dict, comps: dict) -> bool:
    from dateutil.parser import isoparse

    k = s.get("k")
    if k == "ref":
        return value_equals(parsed, value, comps[s["name"]], comps)
    if k == "datetime":
        return parsed == isoparse(value)
    if k == "num":
        return float(value) == parsed
    if k in ("date", "uuid"):
        return parsed == value
    return json_eq(parsed, value) if not isinstance(value, bool) else parsed == value


def path_regex(path_template: str) -> tuple[re.Pattern, list[str]]:
    names = re.findall(r"{([^}]*)}", path_template)
    parts = re.split(r"{[^}]*}", path_template)
    rx = "([^/]*)".join(re.escape(p) for p in parts)
    return re.compile("^" + rx + "$"), names


def run_sync(fn, **kw):
    return fn(**kw)


def run_async(fn, **kw):
    return asyncio.run(fn(**kw))


def make_client(pkg, capture: Capture, *, secured: bool, via: str = "httpx_args", raise_on_unexpected: bool = False,
                token: str = "tok123", prefix: str | None = None, header_name: str | None = None):
    cm = pkg.client
    kwargs: dict[str, Any] = {"base_url": "http://verif.invalid", "raise_on_unexpected_status": raise_on_unexpected}
    if via == "httpx_args":
        kwargs["httpx_args"] = {"transport": capture.transport()}
    if secured:
        kw = dict(kwargs, token=token)
        if prefix is not None:
            kw["prefix"] = prefix
        if header_name is not None:
            kw["auth_header_name"] = header_name
        c = cm.AuthenticatedClient(**kw)
    else:
        c = cm.Client(**kwargs)
    if via == "set_client":
        c.set_httpx_client(httpx.Client(base_url="http://verif.invalid", transport=capture.transport()))
        c.set_async_httpx_client(httpx.AsyncClient(base_url="http://verif.invalid", transport=capture.transport()))
    return c


def close_client(c) -> None:
    try:
        if getattr(c, "_client", None) is not None:
            c._client.close()
    except Exception:
        pass
    try:
        ac = getattr(c, "_async_client", None)
        if ac is not None:
            asyncio.run(ac.aclose())
    except Exception:
        pass
