"""Finding generated artefacts for IR items. Uses the generator's own parse result for *locating* only
(never as the expected value): this internal API is part of the trusted base; if it disappears checks exit 2."""
from __future__ import annotations

import re

from .core import HarnessError


def _strip(path: str) -> str:
    return re.sub(r"{[^}]*}", "{}", path)


class EndpointRef:
    def __init__(self, tag: str, module: str, ep):
        self.tag = tag
        self.module = module   # e.g. "api.default.fetch_thing"
        self.ep = ep
        self.pynames: dict[tuple[str, str], str] = {}
        for loc, lst in (("path", ep.path_parameters), ("query", ep.query_parameters),
                         ("header", ep.header_parameters), ("cookie", ep.cookie_parameters)):
            for prop in lst:
                self.pynames[(loc, prop.name)] = str(prop.python_name)


def endpoints(res) -> list[EndpointRef]:
    if res.project is None:
        raise HarnessError("no project on generation result")
    try:
        from openapi_python_client import utils

        prefix = res.project.config.field_prefix
        out = []
        for tag, coll in res.project.openapi.endpoint_collections_by_tag.items():
            for ep in coll.endpoints:
                mod = f"api.{tag}.{utils.PythonIdentifier(ep.name, prefix)}"
                out.append(EndpointRef(str(tag), mod, ep))
        return out
    except AttributeError as e:
        raise HarnessError(f"generator internals used for locating have changed: {e}") from e


def _same(er: EndpointRef, op: dict) -> bool:
    if er.ep.method != op["method"] or _strip(er.ep.path) != _strip(op["path"]):
        return False
    return [p.name for p in er.ep.path_parameters] == re.findall(r"{([^}]*)}", op["path"])


def find_endpoint(res, op: dict) -> EndpointRef | None:
    """The generated endpoint for an IR operation (first tag), or None if the generator did not produce one."""
    for er in endpoints(res):
        if _same(er, op):
            return er
    return None


def find_all_endpoints(res, op: dict) -> list[EndpointRef]:
    return [er for er in endpoints(res) if _same(er, op)]
