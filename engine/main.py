"""./check <ID> ... : sharded generated-input search for one property."""
from __future__ import annotations

import argparse
import collections
import hashlib
import importlib
import json
import multiprocessing as mp
import os
import sys
import time
import traceback

from . import env

env.bootstrap()
import warnings  # noqa: E402

warnings.filterwarnings("ignore", category=SyntaxWarning)

from . import core  # noqa: E402
from .core import Ctx  # noqa: E402

CASE_TIMEOUT = float(os.environ.get("VERIF_CASE_TIMEOUT", "90"))


def load_module(pid: str):
    return importlib.import_module(f"engine.props.{pid.lower()}")


def exec_case(mod, case, tier: str, replay: bool = False) -> Ctx:
    ctx = Ctx(tier=tier, replay=replay)
    try:
        limit = mod.case_timeout(case) if hasattr(mod, "case_timeout") else getattr(mod, "CASE_TIMEOUT", CASE_TIMEOUT)
        core.with_timeout(limit, mod.run, case, ctx)
    except core.CaseTimeout:
        if hasattr(mod, "on_timeout"):
            mod.on_timeout(case, ctx)
        else:
            ctx.skip("timeout")
            ctx.label("timeout")
    return ctx


def shard_seed(seed: int, pid: str, k: int) -> int:
    return int(hashlib.sha256(f"{seed}:{pid}:{k}".encode()).hexdigest()[:8], 16)


class Acc:
    def __init__(self):
        self.evals = 0
        self.sub_evals = 0
        self.nontrivial: set[str] = set()
        self.labels: collections.Counter = collections.Counter()
        self.known_hits: collections.Counter = collections.Counter()
        self.excluded: collections.Counter = collections.Counter()
        self.skipped: collections.Counter = collections.Counter()
        self.samples: list = []
        self.buckets: dict[str, dict] = {}
        self.harness_errors: list[str] = []

    def account(self, mod, case, ctx: Ctx, live: list[dict]) -> None:
        self.evals += 1
        self.sub_evals += ctx.sub_evaluations
        for lb in ctx.labels:
            self.labels[lb] += 1
        for e in ctx.excluded:
            self.excluded[e] += 1
        if ctx.skipped:
            self.skipped[ctx.skipped] += 1
        self.nontrivial.update(ctx.nontrivial_keys)
        if ctx.nontrivial_keys and len(self.samples) < 3:
            self.samples.append(core.abbreviate(ctx.sample if ctx.sample is not None else case))
        known, unknown = core.classify(ctx.violations, live)
        for _, fid in known:
            self.known_hits[fid] += 1
        if ctx.case_override is not None:
            case = ctx.case_override
        for v in unknown:
            key = core.h64([v["clause"], v["site"]])
            size = len(core.canon(case))
            b = self.buckets.get(key)
            if b is None or size < b["size"]:
                self.buckets[key] = {"clause": v["clause"], "site": v["site"], "detail": v["detail"],
                                     "case": case, "size": size, "count": (b["count"] if b else 0) + 1}
            else:
                b["count"] += 1

    def to_dict(self) -> dict:
        return {
            "evals": self.evals, "sub_evals": self.sub_evals, "nontrivial": sorted(self.nontrivial),
            "labels": dict(self.labels), "known_hits": dict(self.known_hits), "excluded": dict(self.excluded),
            "skipped": dict(self.skipped), "samples": self.samples, "buckets": self.buckets,
            "harness_errors": self.harness_errors,
        }

    def merge(self, d: dict) -> None:
        self.evals += d["evals"]
        self.sub_evals += d["sub_evals"]
        self.nontrivial.update(d["nontrivial"])
        self.labels.update(d["labels"])
        self.known_hits.update(d["known_hits"])
        self.excluded.update(d["excluded"])
        self.skipped.update(d["skipped"])
        for s in d["samples"]:
            if len(self.samples) < 4:
                self.samples.append(s)
        for k, b in d["buckets"].items():
            mine = self.buckets.get(k)
            if mine is None:
                self.buckets[k] = b
            else:
                cnt = mine["count"] + b["count"]
                if b["size"] < mine["size"]:
                    self.buckets[k] = b
                self.buckets[k]["count"] = cnt
        self.harness_errors.extend(d["harness_errors"])


def worker(args) -> dict:
    pid, tier, seed, k, jobs, n_examples, live, opts = args
    acc = Acc()
    cov = None
    if os.environ.get("VERIF_COV"):   # measurement aid for the generators (tools/sut_coverage.py); never set by a registered check
        import coverage

        os.makedirs(os.environ["VERIF_COV"], exist_ok=True)
        cov = coverage.Coverage(data_file=os.path.join(os.environ["VERIF_COV"], f"cov.{pid}.{k}"), branch=True, config_file=False,
                                include=[os.path.join(env.REPO, "openapi_python_client", "*")])
        cov.start()
    try:
        mod = load_module(pid)
        if hasattr(mod, "configure"):
            mod.configure(live_ids={f["id"] for f in live}, tier=tier, opts=opts)
        # finite sweep part
        if hasattr(mod, "sweep"):
            cases = mod.sweep(tier)
            for i in range(k, len(cases), jobs):
                ctx = exec_case(mod, cases[i], tier)
                acc.account(mod, cases[i], ctx, live)
        # generated part
        if hasattr(mod, "strategy") and n_examples > 0:
            from hypothesis import HealthCheck, Phase, given, seed as hseed, settings

            strat = mod.strategy(tier)

            @hseed(shard_seed(seed, pid, k))
            @settings(max_examples=n_examples, database=None, deadline=None, report_multiple_bugs=False,
                      phases=(Phase.generate,), print_blob=False,
                      suppress_health_check=[HealthCheck.too_slow, HealthCheck.data_too_large,
                                             HealthCheck.large_base_example, HealthCheck.filter_too_much])
            @given(strat)
            def test(case):
                ctx = exec_case(mod, case, tier)
                acc.account(mod, case, ctx, live)

            test()
    except BaseException as e:  # noqa: BLE001
        if isinstance(e, KeyboardInterrupt):
            raise
        acc.harness_errors.append(f"shard {k}: " + "".join(traceback.format_exception(e))[-4000:])
    if cov is not None:
        cov.stop()
        cov.save()
    if jobs > 1:
        env.cleanup_now()
    return acc.to_dict()


# ------------------------------------------------------------------------------------------- shrinking

STRUCTURAL_KEYS = {"kind", "k", "in", "method", "how", "base", "level", "version", "meta", "suffix", "style", "op", "loc"}


def _shrink_candidates(obj, path=()):
    """Yield (description, new_obj_builder) deletions/simplifications, big steps first."""
    if isinstance(obj, list):
        for i in range(len(obj)):
            yield path + (i,), "del"
        for i, x in enumerate(obj):
            yield from _shrink_candidates(x, path + (i,))
    elif isinstance(obj, dict):
        for k in list(obj):
            yield path + (k,), "del"
        for k, x in obj.items():
            yield from _shrink_candidates(x, path + (k,))
    elif isinstance(obj, str) and len(obj) > 1 and (not path or path[-1] not in STRUCTURAL_KEYS):
        yield path, "short"
    elif isinstance(obj, bool):
        return
    elif isinstance(obj, int) and obj not in (0, 1):
        yield path, "zero"


def _apply(obj, path, op):
    import copy

    new = copy.deepcopy(obj)
    if not path:
        return None
    cur = new
    for p in path[:-1]:
        cur = cur[p]
    last = path[-1]
    if op == "del":
        del cur[last]
    elif op == "short":
        cur[last] = cur[last][:1]
    elif op == "zero":
        cur[last] = 0
    return new


def shrink(mod, case, bucket_key: str, tier: str, live, budget: int = 120):
    """Greedy structural delta-debugging of a JSON case: keep a change iff the same (clause, site) still fails."""

    def still_fails(c) -> bool:
        try:
            ctx = exec_case(mod, c, tier, replay=True)
        except Exception:
            return False
        _, unknown = core.classify(ctx.violations, live)
        return any(core.h64([v["clause"], v["site"]]) == bucket_key for v in unknown)

    used = 0
    improved = True
    while improved and used < budget:
        improved = False
        for path, op in list(_shrink_candidates(case)):
            if used >= budget:
                break
            try:
                cand = _apply(case, path, op)
            except Exception:
                continue
            if cand is None:
                continue
            used += 1
            if still_fails(cand):
                case = cand
                improved = True
                break
    return case, used


# ------------------------------------------------------------------------------------------- main

def main(argv=None) -> int:
    ap = argparse.ArgumentParser()
    ap.add_argument("pid")
    ap.add_argument("--tier", default=os.environ.get("VERIF_TIER", "quick"))
    ap.add_argument("--replay")
    ap.add_argument("--seed", type=int, default=int(os.environ.get("VERIF_SEED", "1") or 1))
    ap.add_argument("--jobs", type=int, default=int(os.environ.get("VERIF_JOBS", "16")))
    ap.add_argument("--budget", type=int, default=None)
    ap.add_argument("--no-shrink", action="store_true")
    ap.add_argument("--opt", action="append", default=[])
    a = ap.parse_args(argv)
    pid = a.pid.upper()
    tier = a.tier if a.tier in ("quick", "thorough") else "quick"
    t0 = time.time()
    opts = dict(o.split("=", 1) if "=" in o else (o, "1") for o in a.opt)
    try:
        mod = load_module(pid)
    except Exception:
        print("HARNESS-ERROR: cannot load property module\n" + traceback.format_exc())
        return env.HARNESS_ERROR

    findings = core.load_findings(pid)
    open_findings = [f for f in findings if f.get("status", "open") == "open"]
    all_ids = {f["id"] for f in open_findings}
    if hasattr(mod, "configure"):
        mod.configure(live_ids=all_ids, tier=tier, opts=opts)

    # --- replay of one file
    if a.replay:
        with open(a.replay, encoding="utf-8") as f:
            case = json.load(f)
        if isinstance(case, dict) and "case" in case and "property" in case:
            case = case["case"]
        ctx = exec_case(mod, case, tier, replay=True)
        known, unknown = core.classify(ctx.violations, open_findings)
        for v, fid in known:
            print(f"KNOWN-FINDING: property={pid} [{fid}] clause={v['clause']} site={core.canon(v['site'])}")
        for v in unknown:
            print(f"VIOLATION property={pid} replay={os.path.abspath(a.replay)}")
            print(f"  clause={v['clause']} site={core.canon(v['site'])}\n  detail={v['detail'][:800]}")
        if ctx.skipped:
            print(f"case skipped: {ctx.skipped}")
        if not ctx.violations:
            print("replay: no violation")
        return 1 if unknown else 0

    # --- 1. reproducers of known findings decide which are live
    live, stale = [], []
    for f in open_findings:
        rp = os.path.join(env.VERIF, f["reproducer"])
        try:
            with open(rp, encoding="utf-8") as fh:
                case = json.load(fh)
            if isinstance(case, dict) and "case" in case and "property" in case:
                case = case["case"]
            ctx = exec_case(mod, case, tier, replay=True)
        except Exception:
            print(f"HARNESS-ERROR: reproducer of {f['id']} could not be run\n{traceback.format_exc()}")
            return env.HARNESS_ERROR
        if any(core.matches(f, v) for v in ctx.violations):
            live.append(f)
            print(f"KNOWN-FINDING: property={pid} {f['what']} [{f['id']}]")
        else:
            stale.append(f)
            print(f"note: finding {f['id']} no longer reproduces; its exclusion and matching are off", file=sys.stderr)
    live_ids = {f["id"] for f in live}
    if hasattr(mod, "configure"):
        mod.configure(live_ids=live_ids, tier=tier, opts=opts)

    total = Acc()
    # --- 2. replay tier (saved regression inputs, bypasses the library)
    rdir = os.path.join(env.VERIF, "replays", pid)
    n_replayed = 0
    if os.path.isdir(rdir):
        for fn in sorted(os.listdir(rdir)):
            if not fn.endswith(".json"):
                continue
            with open(os.path.join(rdir, fn), encoding="utf-8") as fh:
                case = json.load(fh)
            if isinstance(case, dict) and "case" in case and "property" in case:
                case = case["case"]
            ctx = exec_case(mod, case, tier, replay=True)
            ctx.nontrivial_keys = []  # replays are not counted as generated coverage
            total.account(mod, case, ctx, live)
            total.evals -= 1
            n_replayed += 1

    # --- 3. generated search
    budgets = getattr(mod, "BUDGET", {"quick": 200, "thorough": 2000})
    budget = a.budget if a.budget is not None else budgets.get(tier, 200)
    jobs = max(1, min(a.jobs, getattr(mod, "MAX_JOBS", 64)))
    per = (budget + jobs - 1) // jobs if budget > 0 else 0
    work = [(pid, tier, a.seed, k, jobs, per, live, opts) for k in range(jobs)]
    if jobs == 1:
        results = [worker(work[0])]
    else:
        ctxm = mp.get_context("fork")
        with ctxm.Pool(jobs, maxtasksperchild=1) as pool:
            results = list(pool.imap_unordered(worker, work))
    for r in results:
        total.merge(r)

    if total.harness_errors:
        print("HARNESS-ERROR:\n" + "\n".join(total.harness_errors[:3]))
        return env.HARNESS_ERROR

    # --- 4. post-run hook (e.g. batched external oracles), shrink, report
    if hasattr(mod, "finish"):
        try:
            mod.finish(total, tier, live)
        except core.HarnessError as e:
            print(f"HARNESS-ERROR: {e}")
            return env.HARNESS_ERROR

    found_dir = os.path.join(env.VERIF, ".work", "found")
    os.makedirs(found_dir, exist_ok=True)
    n_viol = 0
    reported = []
    for key, b in sorted(total.buckets.items(), key=lambda kv: kv[1]["size"]):
        case = b["case"]
        generated = case   # as the generator produced it (the shrunk form may leave the generator's domain; triage needs both)
        used = 0
        if not a.no_shrink and n_viol < 6 and not getattr(mod, "NO_SHRINK", False):
            try:
                case, used = shrink(mod, case, key, tier, live, budget=getattr(mod, "SHRINK_BUDGET", 120))
            except Exception:
                pass
        path = os.path.join(found_dir, f"{pid}-{key}.json")
        with open(path, "w", encoding="utf-8") as fh:
            json.dump({"property": pid, "clause": b["clause"], "site": b["site"], "detail": b["detail"],
                       "hits": b["count"], "shrink_evals": used, "case": case,
                       **({"case_as_generated": generated} if used else {})}, fh, indent=1, default=repr)
        n_viol += 1
        reported.append({"clause": b["clause"], "site": b["site"], "hits": b["count"], "replay": path})
        print(f"VIOLATION property={pid} replay={path}")
        print(f"  clause={b['clause']} site={core.canon(b['site'])} hits={b['count']}\n  detail={b['detail'][:600]}")

    # minimum class counts: a class the property depends on must actually have been generated
    req = getattr(mod, "REQUIRED_LABELS", {}).get(tier, {})
    missing = {k: v for k, v in req.items() if total.labels.get(k, 0) < v}

    samples = total.samples or [{"note": "no non-trivial sample recorded"}]
    coverage = {
        "evaluations": total.evals + total.sub_evals,
        "cases": total.evals,
        "distinct_nontrivial": len(total.nontrivial),
        "rule": getattr(mod, "RULE", ""),
        "samples": samples,
        "classes": dict(sorted(total.labels.items())),
        "skipped": dict(total.skipped),
        "known_hits": dict(total.known_hits),
        "excluded_by_known_finding": dict(total.excluded),
        "live_findings": sorted(live_ids),
        "stale_findings": [f["id"] for f in stale],
        "replayed_regressions": n_replayed,
        "unlisted_violation_buckets": reported,
        "jobs": jobs,
        "exhaustive": bool(getattr(mod, "EXHAUSTIVE", False)) and not hasattr(mod, "strategy"),
    }
    if hasattr(mod, "extra_coverage"):
        coverage.update(mod.extra_coverage(total, tier))
    try:
        core.write_evidence(pid, tier, a.seed, t0, coverage, getattr(mod, "ASSUMPTIONS", []), n_viol)
    except core.HarnessError as e:
        print(f"HARNESS-ERROR: {e}")
        return env.HARNESS_ERROR
    print(f"{pid} {tier}: cases={total.evals} evaluations={total.evals + total.sub_evals} "
          f"distinct_nontrivial={len(total.nontrivial)} known_hits={sum(total.known_hits.values())} "
          f"violations={n_viol} wall={time.time() - t0:.1f}s")
    if n_viol:
        return 1
    if missing:
        print(f"HARNESS-ERROR: generator never produced required classes: {missing}")
        return env.HARNESS_ERROR
    if len(total.nontrivial) < 2:
        print("HARNESS-ERROR: fewer than 2 distinct non-trivial cases were explored")
        return env.HARNESS_ERROR
    return 0


if __name__ == "__main__":
    sys.exit(main())
