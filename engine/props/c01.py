"""C01 - every generated client is a valid, importable Python package."""
from __future__ import annotations

import os
import re
import tomllib

from hypothesis import strategies as st

from .. import behave, env, pyast, sut
from ..gen import docs, names

ID = "C01"
BUDGET = {"quick": 640, "thorough": 8000}
FRESH_EVERY = {"quick": 6, "thorough": 1}
RULE = ("full documents (object/array/union/enum/const/primitive schemas, forward/backward/self/mutual $refs, inline "
        "schemas, parameters in 4 locations, JSON/form/multipart/octet bodies, JSON/text/bytes/empty responses) whose "
        "component, property, parameter, operationId, tag, title and enum-value names come from an identifier-hostile, "
        "quote-free pool (spaces, dashes, dots, leading digits, keywords, builtins, case variants, non-ASCII, stripped "
        "punctuation, empty/delimiter-only) x meta in {none,poetry,pdm,setup} x literal_enums x docstrings_on_attributes. "
        "Non-trivial = >=1 model and >=1 endpoint module generated and (a hostile name or a reference cycle or a warning). "
        "distinct = hash(document, config).")
ASSUMPTIONS = [
    "SyntaxWarning is not a violation; names with quotes/backslashes/braces/control characters belong to C05",
    "names within one scope are pairwise distinct after NFKC+lowercase+alnum-only normalisation (merging is C09's subject)",
    "code points matched by \\w that are not identifier characters are excluded while the C09 finding covering them is live",
    "ruff F821/F822 is used as a secondary undefined-name oracle when /venv/bin/ruff exists",
]

_live: set[str] = set()
_HDR_BLOCK = {"host", "content-length", "content-type", "accept", "accept-encoding", "connection", "user-agent", "cookie",
              "authorization", "transfer-encoding"}


def configure(live_ids, tier, opts):
    global _live
    _live = set(live_ids)


TEMPLATE_IMPORTS = ["Response", "File", "Client", "AuthenticatedClient", "HTTPStatus", "Any", "Union", "Optional", "cast", "UNSET",
                    "Unset", "errors", "httpx", "Mapping", "TypeVar", "BinaryIO", "TextIO", "TYPE_CHECKING", "T", "datetime",
                    "isoparse", "UUID", "BytesIO", "Literal", "Enum", "IntEnum", "json", "FileJsonType", "Generic", "MutableMapping",
                    "ssl", "define", "field", "evolve", "types", "models"]
_SHADOW = {names.norm(t) for t in TEMPLATE_IMPORTS}


def nfkc_stable(s: str) -> bool:
    import unicodedata

    return all(unicodedata.normalize("NFKC", v) == v for v in (s, s.lower(), s.upper(), s.title()))


def _name_ok(s: str) -> bool:
    if "KF-C01-02" in _live and not nfkc_stable(s):
        return False
    return True


def _class_ok(s: str) -> bool:
    if "KF-C01-01" in _live and names.norm(s) in _SHADOW:
        return False
    return _name_ok(s)


def _rename_schema(draw, s, cmap, depth=0):
    k = s.get("k")
    if k == "ref":
        s["name"] = cmap.get(s["name"], s["name"])
    elif k == "array":
        _rename_schema(draw, s["items"], cmap, depth + 1)
    elif k == "union":
        for m in s["members"]:
            _rename_schema(draw, m, cmap, depth + 1)
    elif k == "enum" and s["base"] == "str":
        vals = draw(names.distinct_hostile(len(s["values"]), allow_empty=True, alphabet_ok=_name_ok))
        s["values"] = vals
    elif k == "object":
        new = draw(names.distinct_hostile(len(s["props"]), allow_empty=True, alphabet_ok=_name_ok))
        for p, nn in zip(s["props"], new):
            p[0] = nn
            _rename_schema(draw, p[1], cmap, depth + 1)
        if isinstance(s.get("addl"), dict):
            _rename_schema(draw, s["addl"], cmap, depth + 1)
        for m in s.get("allOf", []):
            _rename_schema(draw, m, cmap, depth + 1)
        if depth > 0 and draw(st.integers(0, 3)) == 0:
            s["title"] = draw(names.hostile_name().filter(_class_ok))


@st.composite
def hostile_doc(draw):
    prof = docs.profile(max_schemas=4, max_props=4, max_ops=3, desc=True, allof=True, defaults=True, inline_allof=True, prefix_items=True, const_everywhere=True)
    ir = draw(docs.doc_ir(prof))
    comp_old = [n for n, _ in ir["schemas"]]
    comp_new = draw(names.distinct_hostile(len(comp_old), allow_empty=False,
                                           alphabet_ok=lambda s: re.fullmatch(r"[A-Za-z0-9._-]+", s) is not None and _class_ok(s)))
    cmap = dict(zip(comp_old, comp_new))
    # allOf children must not share (normalised) property names with parents: rename per *family* via one draw per object
    for entry in ir["schemas"]:
        entry[0] = cmap[entry[0]]
        _rename_schema(draw, entry[1], cmap)
    # allOf children: drop properties whose normalised name equals one of the parent's (shared names are C15's subject)
    comps = docs.comp_map(ir)

    def _dedupe(s):
        """allOf compositions (component-level or inline): drop own properties whose normalised name equals an inherited one."""
        if not isinstance(s, dict):
            return
        if s.get("k") == "object" and s.get("allOf"):
            inherited = set()
            for m in s["allOf"]:
                if m["k"] == "ref" and m["name"] in comps:
                    inherited |= {names.norm(p[0]) for p in docs._all_props(comps[m["name"]], comps)}
            s["props"] = [p for p in s["props"] if names.norm(p[0]) not in inherited] or \
                ([["ownprop", {"k": "str"}, False]] if "ownprop" not in inherited else [])
        for p in s.get("props", []):
            _dedupe(p[1])
        for key in ("items", "addl"):
            _dedupe(s.get(key))
        for m in s.get("members", []):
            _dedupe(m)

    for n, s in ir["schemas"]:
        _dedupe(s)
    # derived class names (component; parent + property for inline objects/enums; + "item" / "type<i>" below arrays / unions) that
    # coincide after normalisation map to one module file (root cause of KF-C09-05, C09's subject): the inline schema is replaced
    # by a plain string, counted in the case
    taken = {names.norm(n) for n, _ in ir["schemas"]}
    n_excl = [0]

    def _claim(s, base, parent=""):
        """Returns False if the class this schema would generate collides with one already claimed."""
        k = s.get("k")
        if k == "array":
            return _claim(s["items"], base + "item", parent)
        if k == "union":
            return all(_claim(m, base + f"type{i}", parent) for i, m in enumerate(s["members"]))
        if k not in ("object", "enum"):
            return True
        # a titled inline schema is named after its title, prefixed with the parent's class name (default configuration)
        mine = {parent + names.norm(s["title"]), names.norm(s["title"])} if s.get("title") else {base}
        if (mine & taken) or "" in mine:
            return False
        taken.update(mine)
        if k == "object":
            _claim_props(s, sorted(mine, key=len)[-1])
        return True

    def _claim_props(s, me):
        for p in s.get("props", []):
            if not _claim(p[1], me + names.norm(p[0]), me):
                p[1] = {"k": "str"}
                n_excl[0] += 1
        if isinstance(s.get("addl"), dict) and not _claim(s["addl"], me + "additionalproperty", me):
            s["addl"] = None
            n_excl[0] += 1

    for n, s in ir["schemas"]:
        if s.get("k") == "object":
            _claim_props(s, names.norm(n))
    for op in ir["ops"]:
        ps = op["params"]
        used: list[str] = []
        for p in ps:
            has_body = bool(op.get("body"))
            body_ok = lambda s, hb=has_body: not (hb and "KF-C01-03" in _live and names.norm(s) == "body")  # noqa: E731
            if p["in"] == "path":
                ok = lambda s: names.PATH_PARAM_RE.match(s) is not None and body_ok(s)  # noqa: E731
            elif p["in"] == "header":
                ok = lambda s: (names.HEADER_TOKEN_RE.match(s) is not None and s.lower() not in _HDR_BLOCK  # noqa: E731
                                and _name_ok(s) and body_ok(s))
            else:
                ok = lambda s: _name_ok(s) and body_ok(s)  # noqa: E731
            nn = draw(names.distinct_hostile(1, allow_empty=False, alphabet_ok=ok, avoid=used))[0]
            if p["in"] == "path":
                op["path"] = op["path"].replace("{" + p["name"] + "}", "{" + nn + "}")
            p["name"] = nn
            used.append(nn)
            _rename_schema(draw, p["schema"], cmap)
        if op.get("body"):
            for c in op["body"]["content"]:
                _rename_schema(draw, c[1], cmap)
        for r in op["responses"]:
            if r[1] is not None and r[1][1] is not None:
                _rename_schema(draw, r[1][1], cmap)
        if op["opid"] is not None:
            op["opid"] = draw(names.hostile_name().filter(_class_ok))
        op["tags"] = [draw(names.hostile_name().filter(_name_ok)) for _ in op["tags"]]
        op["summary"] = draw(st.sampled_from(["", "Summary text", "Üñí çødé summary"]))
    # operationIds distinct (module collisions are C07/C09's subject)
    seen = set()
    for i, op in enumerate(ir["ops"]):
        if op["opid"] is not None:
            k = names.norm(op["opid"])
            if k in seen or not k:
                op["opid"] = f"{op['opid']} op{i}"
            seen.add(names.norm(op["opid"]))
    # inline schemas of an operation derive their class names from the operation's name (+ parameter name, "body", "response<status>",
    # or a title): the same coincidence rule as for components applies to them
    for op in ir["ops"]:
        if op["opid"] is None:
            continue
        ob = names.norm(op["opid"])
        for p in op["params"]:
            if not _claim(p["schema"], ob + names.norm(p["name"]), ob):
                p["schema"] = {"k": "str"}
                n_excl[0] += 1
        if op.get("body"):
            multi = len(op["body"]["content"]) > 1
            for c in op["body"]["content"]:
                suffix = {"application/json": "jsonbody", "multipart/form-data": "filesbody", "application/x-www-form-urlencoded": "databody"}.get(c[0], "body") if multi else "body"
                if c[1].get("k") in ("object", "enum", "array", "union") and not _claim(c[1], ob + suffix, ob):
                    c[1] = {"k": "str"} if c[0] == "application/json" else c[1]
                    n_excl[0] += 1
        for r in op["responses"]:
            if r[1] is not None and r[1][1] is not None and r[1][1].get("k") in ("object", "enum", "array", "union"):
                if not _claim(r[1][1], ob + "response" + str(r[0]), ob):
                    r[1][1] = {"k": "str"}
                    n_excl[0] += 1
    ir["title"] = draw(st.one_of(st.just("Verif API"), names.hostile_name().filter(_name_ok)))
    cfg = {"literal_enums": draw(st.booleans()), "docstrings_on_attributes": draw(st.booleans())}
    case = {"ir": ir, "cfg": cfg, "meta": draw(st.sampled_from(["none", "poetry", "pdm", "setup"]))}
    if n_excl[0]:
        case["excluded_coinciding_inline_classes"] = n_excl[0]
    obj_names = [n for n, sc in ir["schemas"] if sc["k"] == "object"]
    if obj_names and draw(st.integers(0, 3)) == 0:
        # warning-level bad pieces (the document is still accepted): a component with an unusable property, and good pieces that
        # reach it through every kind of reference. What is generated must not refer to what was left out.
        case["faults"] = [{"host": draw(st.sampled_from(obj_names)), "fault": draw(st.sampled_from(WARNING_FAULTS)), "n": i,
                           "route": draw(st.sampled_from(ROUTES)), "first": draw(st.booleans()), "required": draw(st.booleans())}
                          for i in range(draw(st.integers(1, 2)))]
    if draw(st.integers(0, 4)) == 0:
        # the package is regenerated with --overwrite over an earlier, different document (other tags, schemas, operations)
        case["previous"] = draw(docs.doc_ir(docs.profile(max_schemas=3, max_props=2, max_ops=3)))
        case["previous"]["title"] = ir["title"]
    return case


WARNING_FAULTS = ["array_without_items", "dangling_ref", "invalid_default", "mixed_enum", "bad_date_default", "nested_bad_item",
                  "union_with_bad_member", "enum_default_is_list", "tuple_with_bad_slot"]
ROUTES = ["ref", "array", "prefix", "union", "nullable_ref", "addl", "nested", "via_array_alias", "via_union_alias", "allof_child",
          "array_of_union", "response", "body", "none"]
_NUM = ["One", "Two"]


def inject_faults(doc: dict, faults: list[dict]) -> None:
    """Patches the rendered document in place (see hostile_doc)."""
    from . import c08

    schemas = doc.setdefault("components", {}).setdefault("schemas", {})
    v31 = str(doc.get("openapi", "")).startswith("3.1")
    for f in faults:
        target = schemas.get(f["host"])
        if not isinstance(target, dict):
            continue
        holder = target
        if "allOf" in target and "properties" not in target:
            inl = [m for m in target["allOf"] if isinstance(m, dict) and "$ref" not in m]
            if not inl:
                target["allOf"].append({"type": "object"})
                inl = [target["allOf"][-1]]
            holder = inl[-1]
        if holder.get("type") not in (None, "object"):
            continue
        import copy as _copy

        holder.setdefault("properties", {})[f"zzBad{f['n']}"] = _copy.deepcopy(c08.SCHEMA_FAULTS[f["fault"]])
        if f.get("required"):
            holder.setdefault("required", []).append(f"zzBad{f['n']}")
        ref = {"$ref": "#/components/schemas/" + f["host"]}
        route = f["route"]
        if route == "prefix" and not v31:
            route = "array"
        new: dict = {}
        tgt = ref
        if route in ("via_array_alias", "via_union_alias"):
            alias = "YyAlias" + _NUM[f["n"] % 2]
            new[alias] = {"type": "array", "items": ref} if route == "via_array_alias" else {"oneOf": [ref, {"type": "integer"}]}
            tgt = {"$ref": "#/components/schemas/" + alias}
        sch = {"ref": tgt, "via_array_alias": tgt, "via_union_alias": tgt,
               "array": {"type": "array", "items": ref},
               "prefix": {"type": "array", "prefixItems": [ref, {"type": "string"}]},
               "union": {"anyOf": [ref, {"type": "integer"}]},
               "nullable_ref": {"anyOf": [ref, {"type": "null"}]} if v31 else {"nullable": True, "allOf": [ref]},
               "addl": {"type": "object", "additionalProperties": ref},
               "nested": {"type": "object", "properties": {"deep": ref}, "required": ["deep"]},
               "array_of_union": {"type": "array", "items": {"oneOf": [{"type": "string"}, ref]}}}.get(route)
        user = "YyUser" + _NUM[f["n"] % 2]
        if sch is not None:
            new[user] = {"type": "object", "properties": {"route": sch, "label": {"type": "string"}}}
        elif route == "allof_child":
            new[user] = {"allOf": [ref, {"type": "object", "properties": {"yyOwn": {"type": "string"}}}]}
        elif route in ("response", "body"):
            op = {"operationId": "yyUse" + _NUM[f["n"] % 2], "responses": {"200": {"description": "ok"}}}
            if route == "response":
                op["responses"]["200"]["content"] = {"application/json": {"schema": ref}}
            else:
                op["requestBody"] = {"content": {"application/json": {"schema": ref}}}
            doc.setdefault("paths", {})["/yy-use-" + _NUM[f["n"] % 2].lower()] = {"post": op}
        if f.get("first"):
            doc["components"]["schemas"] = schemas = {**new, **schemas}
        else:
            schemas.update(new)


def strategy(tier):
    return hostile_doc()


_case_no = 0


def run(case, ctx):
    if case.get("excluded_coinciding_inline_classes"):
        ctx.label("excluded:coinciding_inline_class_names")
    global _case_no
    _case_no += 1
    ir = case["ir"]
    doc = docs.render(ir)
    if case.get("faults"):
        inject_faults(doc, case["faults"])
        ctx.label("with_warning_level_faults")
        for f_ in case["faults"]:
            ctx.label("fault_route:" + f_["route"])
    meta = case.get("meta", "none")
    out_dir = None
    if case.get("previous"):
        prev = sut.generate(docs.render(case["previous"]), cfg=case.get("cfg") or {}, meta=meta)
        if prev.exc is None and prev.accepted and os.path.isdir(prev.out):
            out_dir = prev.out
            ctx.label("regenerated_over_previous_document")
    res = sut.generate(doc, cfg=case.get("cfg") or {}, meta=meta, out=out_dir, overwrite=out_dir is not None)
    try:
        if res.exc is not None:
            ctx.violation("generator.completes", res.exc_site, repr(res.exc)[:300])   # a valid document: the crash itself breaks the property
            ctx.label("crash:" + res.exc_site["exc"])
            return
        if not res.accepted:
            ctx.skip("rejected")
            return
        pkg_dir = res.package_dir
        if not pkg_dir or not os.path.isdir(pkg_dir):
            ctx.violation("package.exists", {"meta": meta}, f"{res.out}")
            return
        files = pyast.py_files(res.out)
        trees = {}
        ok = True
        flags = _risk_flags(ir, pkg_dir)
        flags.update(removed_ref_via_union(ir, res.diag_text()))
        for f in files:
            tree, err = pyast.compile_file(f)
            rel = os.path.relpath(f, res.out)
            if err is not None:
                ok = False
                line = (getattr(err, "text", "") or "").strip()
                ctx.violation("py.compiles", {"kind": pyast.module_kind(rel), "msg": _norm_msg(str(getattr(err, "msg", err))),
                                              "shape": _line_shape(line), **flags},
                              f"{rel}:{getattr(err, 'lineno', '?')}: {err} | {line[:200]}")
            else:
                trees[f] = tree
        # metadata
        if meta in ("poetry", "pdm", "setup"):
            pp = os.path.join(res.out, "pyproject.toml")
            try:
                with open(pp, "rb") as fh:
                    tomllib.load(fh)
            except Exception as e:  # noqa: BLE001
                ctx.violation("pyproject.valid_toml", {"meta": meta, "exc": type(e).__name__}, str(e)[:300])
        # import closure
        pkg_trees = {f: t for f, t in trees.items() if os.path.abspath(f).startswith(os.path.abspath(pkg_dir))}
        for clause, site, detail in pyast.check_imports(pkg_dir, pkg_trees):
            ctx.violation(clause, {**site, **flags}, detail)
        if ok:
            undefined = pyast.ruff_undefined(pkg_dir)
            if undefined:
                ctx.violation("names.defined", {"kind": pyast.module_kind(os.path.relpath(undefined[0].split(":")[0], pkg_dir))},
                              "; ".join(undefined[:3])[:500])
            elif undefined is None:
                ctx.label("ruff_unavailable")
        # import every module
        n_models = n_endpoints = 0
        if ok:
            try:
                with sut.Loaded(pkg_dir) as pkg:
                    for m in pkg.all_module_names():
                        try:
                            pkg.mod(m)
                        except BaseException as e:  # noqa: BLE001
                            if behave._is_ctl(e):
                                raise
                            ctx.violation("module.imports", {"kind": pyast.module_kind(m.replace(".", "/") + ".py"),
                                                             "exc": type(e).__name__, **flags}, f"{m}: {e!r}"[:300])
                            break
                        if m.startswith("models."):
                            n_models += 1
                        if m.startswith("api.") and m.count(".") == 2:
                            n_endpoints += 1
            except BaseException as e:  # noqa: BLE001
                if behave._is_ctl(e):
                    raise
                ctx.violation("module.imports", {"kind": "__init__.py", "exc": type(e).__name__}, repr(e)[:300])
            if (ctx.replay or _case_no % FRESH_EVERY.get(ctx.tier, 6) == 0) and not ctx.violations:
                fr = pyast.fresh_import(pkg_dir)
                ctx.evals()
                if fr is not None and not fr[0]:
                    ctx.violation("module.imports_fresh_interpreter", {"meta": meta}, fr[1])
                ctx.label("fresh_interpreter_import")
        if res.errors:
            ctx.label("with_warnings")
        ctx.label("meta:" + meta)
        if n_models and n_endpoints:
            ctx.nontrivial([doc, case.get("cfg"), meta])
            if ctx.sample is None:
                ctx.sample = {"meta": meta, "cfg": case.get("cfg"), "component_names": [n for n, _ in ir["schemas"]],
                              "operation_ids": [o["opid"] for o in ir["ops"]],
                              "first_schema": docs.render_schema(ir["schemas"][0][1], ir["version"]) if ir["schemas"] else None}
    finally:
        env.rm(os.path.dirname(res.out))


def _all_names(ir):
    out = [ir.get("title", "")]
    def walk(s):
        if not isinstance(s, dict):
            return
        if s.get("title"):
            out.append(s["title"])
        if s.get("k") == "enum":
            out.extend(v for v in s["values"] if isinstance(v, str))
        for p in s.get("props", []):
            out.append(p[0])
            walk(p[1])
        for key in ("items", "addl"):
            walk(s.get(key))
        for m in s.get("members", []) + s.get("allOf", []):
            walk(m)
    for n, s in ir.get("schemas", []):
        out.append(n)
        walk(s)
    for op in ir.get("ops", []):
        out.append(op.get("opid") or "")
        out.extend(op.get("tags", []))
        for p in op.get("params", []):
            out.append(p["name"])
            walk(p["schema"])
        for c in (op.get("body") or {}).get("content", []):
            walk(c[1])
        for r in op.get("responses", []):
            if r[1] is not None:
                walk(r[1][1])
    return out


def _risk_flags(ir, pkg_dir) -> dict:
    """Document-level facts that identify the listed narrow classes (used only to scope known findings)."""
    flags = {}
    try:
        init = os.path.join(pkg_dir, "models", "__init__.py")
        classes = set(re.findall(r'^    "([^"]+)",$', open(init, encoding="utf-8").read(), flags=re.M))
        if classes & set(TEMPLATE_IMPORTS):
            flags["class_shadows_template_name"] = True
    except OSError:
        pass
    if any(not nfkc_stable(n) for n in _all_names(ir)):
        flags["nfkc_unstable_name"] = True
    for op in ir.get("ops", []):
        if op.get("body") and any(names.norm(p["name"]) == "body" for p in op.get("params", [])):
            flags["param_named_body_with_request_body"] = True
    return flags


def removed_ref_via_union(ir, diag_text: str) -> dict:
    """Is a component the diagnostics report as removed still referenced from inside a union member somewhere?"""
    removed = set(re.findall(r"/components/schemas/([^\s\n]+)", diag_text or ""))
    if not removed:
        return {}
    hit = False

    def walk(s, in_union=False):
        nonlocal hit
        if not isinstance(s, dict):
            return
        if s.get("k") == "ref" and (in_union or s.get("nullable")) and s.get("name") in removed:  # nullable ref = union with null
            hit = True
        for p in s.get("props", []):
            walk(p[1], in_union)
        for key in ("items", "addl"):
            walk(s.get(key), in_union)
        for m in s.get("members", []):
            walk(m, True)
        for m in s.get("allOf", []):
            walk(m, in_union)

    for n, s in ir.get("schemas", []):
        walk(s)
    for op in ir.get("ops", []):
        for p in op.get("params", []):
            walk(p["schema"])
        for c in (op.get("body") or {}).get("content", []):
            walk(c[1])
        for r in op.get("responses", []):
            if r[1] is not None:
                walk(r[1][1])
    return {"removed_component_referenced_in_union": True} if hit else {}


def _norm_msg(m: str) -> str:
    m = re.sub(r"'[^']*'", "'_'", m)
    m = re.sub(r"\d+", "N", m)
    return m[:60]


def _line_shape(line: str) -> str:
    """A coarse, stable classification of the offending source line."""
    if re.search(r"!= (True|False)and ", line):
        return "const_bool_and"
    if re.match(r"^(class|def) ", line):
        return "def_or_class_header"
    if re.match(r"^(from|import) ", line):
        return "import"
    if re.match(r"^[^=(]*:.*=|^[^=(]*: ", line) and "(" not in line.split(":")[0]:
        return "annotated_name"
    if "=" in line:
        return "assignment"
    return "other"
