"""C02 - model decode/encode is a lossless JSON round trip."""
from __future__ import annotations

from hypothesis import strategies as st

from .. import behave, env, sut
from ..gen import docs, instances

ID = "C02"
BUDGET = {"quick": 1280, "thorough": 12000}
N_INST = {"quick": 6, "thorough": 16}
RULE = ("documents: 1-4 component schemas (objects with primitive/formatted/enum/const/array/union/nested/ref/"
        "recursive properties, allOf children, typed/untyped/forbidden additionalProperties, nullable in 3.0 and 3.1 "
        "notation) x literal_enums on/off; per object component several schema-valid instances (all-absent, all-present and "
        "random presence patterns, null where nullable, random union branch, extra keys where allowed), each "
        "cross-validated with jsonschema. An evaluation = one (class, instance) round trip. Non-trivial = non-empty "
        "instance exercising an optional-present+optional-absent mix, a nested model, a union, an array of constructed "
        "items, an additional property or a null; distinct = hash(schema, instance).")
ASSUMPTIONS = [
    "component class is reachable as models.<ComponentName> (safe PascalCase component names)",
    "plain string values are never ISO-8601/UUID-parseable (format ambiguity inside unions is outside 'canonical form')",
    "format: binary is not placed in JSON models",
    "unions holding both date and date-time members, or two array members, are generated only while the findings that "
    "cover them are stale (they are listed narrow classes)",
]

_live: set[str] = set()


def configure(live_ids, tier, opts):
    global _live
    _live = set(live_ids)


def _profile():
    return docs.profile(max_ops=0, max_schemas=4, max_props=5, max_depth=2, inline_allof=True, affix_names=True, prefix_items=True, quote_enum_values=True, defaults=True,
                        date_datetime_union="KF-C02-02" not in _live,
                        two_array_union="KF-C02-03" not in _live,
                        bool_intenum_union="KF-C02-04" not in _live,
                        closed_union_member="KF-C02-05" not in _live)


@st.composite
def cases(draw, tier):
    prof = _profile()
    ir = draw(docs.doc_ir(prof, min_schemas=1, min_ops=0))
    comps = docs.comp_map(ir)
    insts = []
    n = N_INST[tier]
    for name, s in ir["schemas"]:
        if s["k"] != "object":
            continue
        for i in range(n):
            bias = ["none", "all"][i] if i < 2 else "random"
            try:
                insts.append([name, draw(instances.instance(s, comps, 0, bias))])
            except instances.Unsatisfiable:
                break
    # how the document *uses* a component changes the code generated for it (a model used as a multipart body gets a second
    # encoder from the same template): every object component may also be the body of an operation
    used_as = {}
    for name, s in ir["schemas"]:
        if s["k"] == "object" and draw(st.integers(0, 2)) == 0:
            used_as[name] = draw(st.sampled_from(["multipart/form-data", "multipart/form-data", "application/x-www-form-urlencoded",
                                                  "application/json"]))
    return {"ir": ir, "cfg": {"literal_enums": draw(st.booleans())}, "insts": insts, "used_as_body": used_as}


def strategy(tier):
    return cases(tier)


def _nontrivial(value, props, comps) -> bool:
    if not isinstance(value, dict) or not value:
        return False
    pmap = {p[0]: p for p in props}
    opt_present = any(k in value for k, p in pmap.items() if not p[2])
    opt_absent = any(k not in value for k, p in pmap.items() if not p[2])
    if opt_present and opt_absent:
        return True
    if any(k not in pmap for k in value):
        return True
    for k, v in value.items():
        if k in pmap:
            if v is None:
                return True
            kind = behave.effective_kind(pmap[k][1], comps)
            if kind in ("union", "object", "ref:object") or (kind == "array" and v and behave.needs_construct(pmap[k][1], comps)):
                return True
    return False


def run(case, ctx):
    ir = case["ir"]
    comps = docs.comp_map(ir)
    doc = docs.render(ir)
    for k_body, (name, mt) in enumerate(sorted((case.get("used_as_body") or {}).items())):
        if name in comps:
            doc.setdefault("paths", {})[f"/zzbody{k_body}"] = {"post": {
                "operationId": f"zzSend{k_body}", "requestBody": {"required": True, "content": {mt: {"schema": {"$ref": "#/components/schemas/" + name}}}},
                "responses": {"200": {"description": "ok"}}}}
            ctx.label("used_as_body:" + mt.split("/")[-1])
    res = sut.generate(doc, cfg=case.get("cfg") or {})
    try:
        if res.exc is not None or not res.accepted:
            ctx.skip("generator_rejected_or_crashed")
            return
        if res.errors:
            ctx.label("has_warnings")
        try:
            pkg = sut.Loaded(res.package_dir)
        except BaseException as e:  # noqa: BLE001
            if behave._is_ctl(e):
                raise
            ctx.violation("package.imports", {"exc": type(e).__name__}, repr(e)[:300])   # the documents are in the domain: a package that cannot be imported decides the property negatively
            ctx.label("import_failed:" + type(e).__name__)
            return
        with pkg:
            try:
                models = pkg.models
            except BaseException as e:  # noqa: BLE001
                if behave._is_ctl(e):
                    raise
                ctx.violation("package.imports", {"exc": type(e).__name__}, repr(e)[:300])   # the documents are in the domain: a package that cannot be imported decides the property negatively
                return
            for name, value in case["insts"]:
                s = comps.get(name)
                if s is None or s.get("k") != "object":
                    continue
                ok = instances.self_check_valid(value, s, comps)
                if ok is False:
                    ctx.label("generator_reject")
                    continue
                cls = getattr(models, name, None)
                if cls is None:
                    ctx.label("class_missing")
                    continue
                props, addl = instances.flatten_object(s, comps)
                ctx.evals()
                for clause, site, detail in behave.roundtrip(cls, value, props, comps):
                    ctx.violation(clause, site, f"{name}: {detail} | instance={value!r}"[:900])
                if _nontrivial(value, props, comps):
                    ctx.nontrivial([s, value])
                    if ctx.sample is None:
                        ctx.sample = {"component": name, "schema": docs.render_schema(s, ir["version"]), "instance": value}
                for k, v in value.items():
                    pm = {p[0]: p for p in props}
                    if k in pm:
                        ctx.label("prop:" + behave.effective_kind(pm[k][1], comps))
                        if pm[k][1].get("as_prefix"):
                            ctx.label("prop:array:prefix_items")
                    else:
                        ctx.label("prop:additional")
    finally:
        env.rm(res.out)
