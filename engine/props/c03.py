"""C03 - requests put every argument where the document says it goes."""
from __future__ import annotations

import inspect
import io
import json
import string
import typing
import urllib.parse

from hypothesis import strategies as st

from .. import behave, env, http, locate, sut
from ..gen import docs, instances

ID = "C03"
BUDGET = {"quick": 800, "thorough": 10000}
N_CALLS = {"quick": 3, "thorough": 6}
RULE = ("documents with 1-3 operations over all 8 methods, 0-2 path placeholders in any order, 0-3 query/header/cookie "
        "parameters of every scalar kind / enum / array (query) incl. camel/snake/kebab wire names, required and optional, "
        "operation- and path-item-level (incl. an operation-level parameter shadowing a path-item one), optional body with "
        "1-2 media types out of JSON (model/array/scalar), form, multipart (scalars+files), octet-stream, optional security; "
        "x argument sets (optionals independently given/omitted) x {sync_detailed, asyncio_detailed} x literal_enums. "
        "An evaluation = one call. Non-trivial = call with >=2 arguments in >=2 locations, or a body. distinct = "
        "hash(operation, arguments).")
ASSUMPTIONS = [
    "python argument names are looked up in the generator's own parse result (locating only); expectations are about the wire",
    "scalar text forms are compared by typed parse-back (the statement fixes where and under which name, not a text form)",
    "path string arguments use RFC 3986 unreserved characters (not '.'/'..'), header values [A-Za-z0-9 ._-], cookie values [A-Za-z0-9._-]",
    "non-string cookie parameters, uuid headers are generated only while the findings covering them are stale",
    "a served status the operation does not document is used so that response decoding (C04) does not interfere",
]

_live: set[str] = set()


def configure(live_ids, tier, opts):
    global _live
    _live = set(live_ids)


UNRESERVED = string.ascii_letters + string.digits + "-._~"
path_text = st.text(alphabet=UNRESERVED, min_size=1, max_size=8).filter(lambda s: s.strip(".") != "")
# text that needs percent-encoding to stay inside its own path segment (drawn rarely while the finding about it is live)
reserved_path_text = st.text(alphabet=UNRESERVED + "/?#% &=+:@", min_size=1, max_size=8).filter(
    lambda s: s.strip(".") != "" and any(c not in UNRESERVED for c in s))
header_text = st.text(alphabet=string.ascii_letters + string.digits + " ._-", min_size=1, max_size=10).map(str.strip).filter(bool)
cookie_text = st.text(alphabet=string.ascii_letters + string.digits + "._-", min_size=1, max_size=10)


@st.composite
def arg_value(draw, s, loc, comps):
    k = s.get("k")
    if k == "ref":
        return draw(arg_value(comps[s["name"]], loc, comps))
    if k == "str":
        if loc == "path" and draw(st.integers(0, 9 if "KF-C03-07" in _live else 1)) == 0:
            return draw(reserved_path_text)
        return draw({"path": path_text, "header": header_text, "cookie": cookie_text}.get(loc, instances.plain_text))
    if k == "enum" and s.get("base") == "str" and loc == "path":
        ok = [v for v in s["values"] if v and all(c in UNRESERVED for c in v) and v.strip(".")]
        return draw(st.sampled_from(ok)) if ok else None
    if k == "enum" and s.get("base") == "str" and loc in ("header", "cookie"):
        ok = [v for v in s["values"] if v and v.strip() == v and all(c in UNRESERVED + " " for c in v) and (loc == "header" or " " not in v)]
        return draw(st.sampled_from(ok)) if ok else None
    if k == "array":
        n = draw(st.integers(0, 3))
        return [draw(arg_value(s["items"], loc, comps)) for _ in range(n)]
    if k == "num":
        return draw(st.one_of(st.integers(-1000, 1000), st.floats(-1e6, 1e6, allow_nan=False).map(lambda f: round(f, 3))))
    return draw(instances.instance({kk: v for kk, v in s.items() if kk != "nullable"}, comps))


@st.composite
def body_value(draw, kind, s, comps):
    if kind == "octet":
        return draw(st.binary(max_size=20)).decode("latin-1")
    if s.get("k") == "object" and any(p[1].get("k") == "binary" for p in s.get("props", [])) or kind in ("form", "multipart"):
        out = {}
        props_ = s.get("props", [])
        # an empty form/multipart body has no wire form (httpx sends nothing at all): always give >=1 property
        forced = draw(st.integers(0, len(props_) - 1)) if props_ else -1
        for i_, (name, ps, req) in enumerate(props_):
            if not req and i_ != forced and draw(st.booleans()):
                continue
            if ps["k"] == "binary":
                out[name] = {"$bytes": draw(st.binary(max_size=16)).decode("latin-1")}
            elif ps["k"] == "str":
                out[name] = draw(st.text(alphabet=string.ascii_letters + string.digits + " _-.,:/éß", max_size=8))
            elif ps["k"] == "num":
                out[name] = draw(st.one_of(st.integers(-99, 99), st.sampled_from([0.5, -2.25, 100.125])))
            else:
                out[name] = draw(instances.instance(ps, comps))
        return out
    return draw(instances.instance(s, comps))


def media_kind(mt: str) -> str:
    mt = docs.media_base(mt)
    if mt == "application/x-www-form-urlencoded":
        return "form"
    if mt == "multipart/form-data":
        return "multipart"
    if mt == "application/octet-stream":
        return "octet"
    return "json"


@st.composite
def cases(draw, tier):
    prof = docs.profile(max_schemas=3, max_props=3, max_ops=3, max_depth=1,
                        header_uuid="KF-C03-02" not in _live, cookie_nonstring="KF-C03-01" not in _live,
                        date_datetime_union=False, two_array_union=False, const=True,
                        multi_body_multipart="KF-C03-04" not in _live, multi_body_array="KF-C03-05" not in _live,
                        multipart_models=True, media_spellings=True)
    ir = draw(docs.doc_ir(prof))
    if draw(st.integers(0, 7)) == 0 and not any(n == "ZzFlat" for n, _ in ir["schemas"]):
        # one model offered under two request media types (JSON and form, either order): whichever the generated function picks,
        # encoding and Content-Type must belong to the same declared media type
        ir["schemas"].append(["ZzFlat", {"k": "object", "props": [["alpha", {"k": "str"}, True], ["beta", {"k": "str"}, False]], "addl": False, "allOf": []}])
        pair = [["application/json", {"k": "ref", "name": "ZzFlat"}], ["application/x-www-form-urlencoded", {"k": "ref", "name": "ZzFlat"}]]
        if draw(st.booleans()):
            pair.reverse()
        ir["ops"].append({"path": "/zzboth", "method": "post", "opid": "zzSendBoth", "tags": [], "summary": "", "security": False, "params": [],
                          "body": {"required": True, "content": pair, "same_model": True}, "responses": [[200, None]]})
    objs_ = [n for n, sc in ir["schemas"] if sc["k"] == "object"]
    if objs_ and draw(st.integers(0, 5)) == 0:
        # a multipart body whose parts are models (required and optional), a model-or-integer union, a file and a scalar: optional
        # parts are left out in some calls
        ref_ = {"k": "ref", "name": draw(st.sampled_from(objs_))}
        parts = [["needModel", ref_, True], ["maybeModel", dict(ref_), False], ["maybeEither", {"k": "union", "members": [dict(ref_), {"k": "int"}], "how": "oneOf"}, False],
                 ["upload", {"k": "binary"}, draw(st.booleans())], ["note", {"k": "str"}, False]]
        ir["ops"].append({"path": "/zzparts", "method": "post", "opid": "zzSendParts", "tags": [], "summary": "", "security": False, "params": [],
                          "body": {"required": True, "content": [["multipart/form-data", {"k": "object", "props": parts, "addl": False, "allOf": []}]]},
                          "responses": [[200, None]]})
    comps = docs.comp_map(ir)
    # an operation-level parameter shadowing a path-item-level one of a different kind
    for op in ir["ops"]:
        cands = [p for p in op["params"] if p["in"] == "query" and p.get("level") == "op"]
        if cands and draw(st.integers(0, 3)) == 0:
            p = cands[0]
            other = {"k": "bool"} if p["schema"].get("k") != "bool" else {"k": "int"}
            op["params"].append({"name": p["name"], "in": p["in"], "required": False, "schema": other, "level": "path", "shadowed": True})
    calls = []
    for oi, op in enumerate(ir["ops"]):
        for _ in range(N_CALLS[tier]):
            args = []
            feasible = True
            for p in op["params"]:
                if p.get("shadowed"):
                    continue
                if not p["required"] and draw(st.booleans()):
                    continue
                try:
                    v = draw(arg_value(p["schema"], p["in"], comps))
                except instances.Unsatisfiable:
                    v = None
                if v is None:
                    if p["required"]:
                        feasible = False
                    continue
                args.append([p["name"], p["in"], v])
            if not feasible:
                continue
            body = None
            if op.get("body"):
                bi = draw(st.integers(0, len(op["body"]["content"]) - 1))
                mt, bs = op["body"]["content"][bi]
                try:
                    body = [bi, draw(body_value(media_kind(mt), bs, comps))]
                    if ("KF-C03-06" in _live and len(op["body"]["content"]) > 1 and isinstance(body[1], int)
                            and not isinstance(body[1], bool) and _resolve(bs, comps).get("k") == "num"):
                        body[1] = float(body[1]) + 0.5  # listed finding: an int given for a float body is not dispatched
                except instances.Unsatisfiable:
                    continue
            calls.append({"op": oi, "args": args, "body": body, "via": draw(st.sampled_from(["httpx_args", "httpx_args", "set_client"]))})
    case = {"ir": ir, "cfg": {"literal_enums": draw(st.booleans())}, "calls": calls}
    if docs.media_overrides(ir):
        case["cfg"]["content_type_overrides"] = docs.media_overrides(ir)
    if draw(st.integers(0, 2)) == 0:
        # the same document with a drawn subset of parameters, bodies and responses declared once under components (keys spelled
        # unlike the parameter names) and used by reference: the wire must not change
        from . import c20

        case["by_ref"] = {"bits": draw(st.lists(st.integers(0, 7), min_size=6, max_size=16)),
                          "keys": draw(st.lists(st.sampled_from(c20.KEY_WORDS), min_size=12, max_size=12, unique=True))}
    return case


@st.composite
def client_histories(draw):
    """Histories over the generated client classes themselves: credentials must follow the client object that sends."""
    n = draw(st.integers(2, 7))
    steps = [{"op": "new", "token": "tokA", "prefix": draw(st.sampled_from([None, "Token", ""])), "header": draw(st.sampled_from([None, "X-Auth"])),
              "shared_headers": draw(st.booleans())}]
    n_clients = 1
    for _ in range(n):
        r = draw(st.integers(0, 9))
        if r <= 3:
            steps.append({"op": "send", "client": draw(st.integers(0, n_clients - 1)), "variant": draw(st.sampled_from(["sync", "asyncio"]))})
        elif r <= 5:
            steps.append({"op": "derive", "client": draw(st.integers(0, n_clients - 1)), "how": draw(st.sampled_from(["with_headers", "with_cookies", "with_timeout"]))})
            n_clients += 1
        elif r <= 7:
            steps.append({"op": "set_token", "client": draw(st.integers(0, n_clients - 1)), "token": "tok" + draw(st.sampled_from("BCDE"))})
        else:
            steps.append({"op": "new", "token": "tok" + draw(st.sampled_from("FGH")), "prefix": draw(st.sampled_from([None, "Token", ""])),
                          "header": draw(st.sampled_from([None, "X-Auth"])), "shared_headers": draw(st.booleans())})
            n_clients += 1
    steps.append({"op": "send", "client": n_clients - 1, "variant": "sync"})
    return {"kind": "client_history", "steps": steps}


def strategy(tier):
    return st.one_of(cases(tier), cases(tier), cases(tier), cases(tier), client_histories())


HISTORY_DOC = {"openapi": "3.0.3", "info": {"title": "Verif API", "version": "1"},
               "paths": {"/secure": {"get": {"operationId": "getSecure", "security": [{"b": []}], "responses": {"200": {"description": "ok"}}}}},
               "components": {"securitySchemes": {"b": {"type": "http", "scheme": "bearer"}}}}


def _run_client_history(case, ctx):
    import httpx

    res = sut.generate(HISTORY_DOC)
    try:
        if res.exc is not None or not res.accepted:
            ctx.skip("generator_rejected_or_crashed")
            return
        try:
            pkg = sut.Loaded(res.package_dir)
        except BaseException as e:  # noqa: BLE001
            if behave._is_ctl(e):
                raise
            ctx.violation("package.imports", {"exc": type(e).__name__}, repr(e)[:300])   # the documents are in the domain: a package that cannot be imported decides the property negatively
            return
        with pkg:
            mod = pkg.mod("api.default.get_secure")
            AC = pkg.client.AuthenticatedClient
            shared = {"x-shared": "1"}
            clients = []      # [client, capture, expected extra headers, expected cookies, built?]
            for si, st_ in enumerate(case["steps"]):
                ctx.evals()
                if st_["op"] == "new":
                    cap = http.Capture(status=418)
                    kw = {"base_url": "http://verif.invalid", "token": st_["token"], "httpx_args": {"transport": cap.transport()}}
                    if st_.get("prefix") is not None:
                        kw["prefix"] = st_["prefix"]
                    if st_.get("header") is not None:
                        kw["auth_header_name"] = st_["header"]
                    if st_.get("shared_headers"):
                        kw["headers"] = shared    # the same dict object handed to several clients
                    clients.append({"c": AC(**kw), "cap": cap, "extra": {}, "cookies": {}, "built": None})
                elif st_["op"] == "derive":
                    src = clients[st_["client"] % len(clients)]
                    try:
                        if st_["how"] == "with_headers":
                            c2 = src["c"].with_headers({f"x-derived-{si}": "d"})
                            extra = {**src["extra"], f"x-derived-{si}": "d"}
                            ck = dict(src["cookies"])
                        elif st_["how"] == "with_cookies":
                            c2 = src["c"].with_cookies({f"ck{si}": "v"})
                            extra = dict(src["extra"])
                            ck = {**src["cookies"], f"ck{si}": "v"}
                        else:
                            c2 = src["c"].with_timeout(httpx.Timeout(5.0))
                            extra, ck = dict(src["extra"]), dict(src["cookies"])
                    except BaseException as e:  # noqa: BLE001
                        if behave._is_ctl(e):
                            raise
                        ctx.violation("client.derive_works", {"how": st_["how"], "exc": type(e).__name__}, repr(e)[:200])
                        return
                    clients.append({"c": c2, "cap": src["cap"], "extra": extra, "cookies": ck, "built": None})
                elif st_["op"] == "set_token":
                    clients[st_["client"] % len(clients)]["c"].token = st_["token"]
                else:
                    ent = clients[st_["client"] % len(clients)]
                    c = ent["c"]
                    ent["built"] = ent["built"] or {}
                    first_use = st_["variant"] not in ent["built"]
                    if first_use:   # the blocking and the asyncio httpx client are each built on their own first use
                        pfx = c.prefix
                        ent["built"][st_["variant"]] = (c.auth_header_name, f"{pfx} {c.token}" if pfx else c.token)
                    n0 = len(ent["cap"].requests)
                    try:
                        if st_["variant"] == "sync":
                            mod.sync_detailed(client=c)
                        else:
                            http.run_async(mod.asyncio_detailed, client=c)
                    except BaseException as e:  # noqa: BLE001
                        if behave._is_ctl(e):
                            raise
                        ctx.violation("client.call_works", {"exc": type(e).__name__, "variant": st_["variant"]}, repr(e)[:200])
                        return
                    if len(ent["cap"].requests) != n0 + 1:
                        ctx.violation("request.exactly_one", {"history": True}, str(len(ent["cap"].requests) - n0))
                        continue
                    hm = http.header_map(ent["cap"].requests[-1])
                    hname, hval = ent["built"][st_["variant"]]
                    # the variant used first builds its own httpx client: both must carry the credential this object had then
                    if hm.get(hname.lower(), [None])[0] != hval:
                        ctx.violation("history.credential_of_the_sending_client", {"first_use": first_use, "variant": st_["variant"]},
                                      f"step {si}: want {hname}: {hval!r}, got {hm.get(hname.lower())!r}; steps={case['steps']!r}"[:500])
                    for k, v in ent["extra"].items():
                        if hm.get(k.lower(), [None])[0] != v:
                            ctx.violation("history.derived_headers_sent", {"variant": st_["variant"]}, f"{k} missing at step {si}")
                    ck = http.cookies_of(ent["cap"].requests[-1])
                    for k, v in ent["cookies"].items():
                        if ck.get(k) != v:
                            ctx.violation("history.derived_cookies_sent", {"variant": st_["variant"]}, f"{k} missing at step {si}")
            ctx.nontrivial(case)
            ctx.sample = case
            ctx.label("client_history")
            for ent in clients:
                http.close_client(ent["c"])
    finally:
        env.rm(res.out)


# ------------------------------------------------------------------------------------------------ oracle

def _body_object(pkg, fn, op, body, comps):
    """Build the `body=` argument from the case's JSON description."""
    bi, val = body
    mt, bs = op["body"]["content"][bi]
    kind = media_kind(mt)
    types_mod = pkg.types
    if kind == "octet":
        return types_mod.File(payload=io.BytesIO(val.encode("latin-1")))
    ann = inspect.signature(fn).parameters["body"].annotation
    cands = list(typing.get_args(ann)) if typing.get_origin(ann) is typing.Union else [ann]
    schema = bs
    while schema.get("k") == "ref":
        schema = comps[schema["name"]]
    if schema.get("k") == "object":
        plain = {k: (v["$bytes"].encode("latin-1") if isinstance(v, dict) and "$bytes" in v else v) for k, v in val.items()}
        # which candidate class belongs to this media type: the i-th body, in document order
        classes = [c for c in cands if hasattr(c, "from_dict")]
        model_positions = [i for i, (m, s2) in enumerate(op["body"]["content"])
                           if _resolve(s2, comps).get("k") == "object"]
        if op["body"].get("same_model") and classes:
            cls = classes[0]
        else:
            cls = classes[model_positions.index(bi)] if bi in model_positions and len(classes) > model_positions.index(bi) else None
        if cls is None:
            raise behave_missing("body class")
        return cls.from_dict(plain)
    if schema.get("k") == "array" and _resolve(schema["items"], comps).get("k") == "object":
        item_cls = None
        for c in cands:
            for a in typing.get_args(c):
                if isinstance(a, str) or hasattr(a, "from_dict"):
                    item_cls = a
        if isinstance(item_cls, str) or item_cls is None:
            item_cls = getattr(pkg.models, item_cls.strip("'\"")) if isinstance(item_cls, str) else None
        if item_cls is None:
            raise behave_missing("body item class")
        return [item_cls.from_dict(v) for v in val]
    enum_lookup = lambda s: http.enum_class_from_annotation(ann)  # noqa: E731
    return http.to_python(val, schema, comps, enum_lookup)


class behave_missing(Exception):
    pass


def _resolve(s, comps):
    seen = 0
    while s.get("k") == "ref" and seen < 5:
        s = comps.get(s["name"], {"k": "missing"})
        seen += 1
    return s


def _expected_text_values(value, s, comps):
    s = _resolve(s, comps)
    if s.get("k") == "array":
        return [(v, s["items"]) for v in value]
    return [(value, s)]


def _given_of(call) -> dict:
    return {(a[1], a[0]): a[2] for a in call["args"]}


def check_request(ctx, req, op, call, comps, secured, auth, site_base):
    if any(loc_ == "path" and isinstance(v_, str) and any(c not in UNRESERVED for c in v_) for (loc_, _n), v_ in _given_of(call).items()):
        # such a value can leak into other segments, the query or the fragment: everything observed on this request is attributed to it
        site_base = {**site_base, "reserved_characters_in_path_argument": True}
        ctx.label("path_argument_with_reserved_characters")
    V = lambda clause, site, detail="": ctx.violation(clause, {**site_base, **site}, detail)  # noqa: E731
    if req["method"].upper() != op["method"].upper():
        V("request.method", {"want": op["method"]}, req["method"])
    given = {(a[1], a[0]): a[2] for a in call["args"]}
    params = {(p["in"], p["name"]): p for p in op["params"] if not p.get("shadowed")}
    # --- path
    rx, names = http.path_regex(op["path"])
    m = rx.match(req["raw_path"].split("?")[0])     # slots are cut on the path as sent, each then decoded on its own
    if not m:
        V("request.path", {"why": "shape"}, f"{req['raw_path']} vs {op['path']}")
    else:
        for nm, text in zip(names, m.groups()):
            p = params.get(("path", nm))
            if p is None or ("path", nm) not in given:
                continue
            _cmp_text(V, "request.path", urllib.parse.unquote(text), given[("path", nm)], p, comps, "path")
    # --- query
    q: dict[str, list[str]] = {}
    for k, v in req["query"]:
        q.setdefault(k, []).append(v)
    exp_q = {}
    for (loc, nm), val in given.items():
        if loc != "query":
            continue
        p = params[(loc, nm)]
        pairs = _expected_text_values(val, p["schema"], comps)
        if _resolve(p["schema"], comps).get("k") == "array" and not pairs:
            continue  # an empty array transmits no key
        exp_q[nm] = pairs
    if set(q) != set(exp_q):
        extra = sorted(set(q) - set(exp_q))
        missing = sorted(set(exp_q) - set(q))
        kinds = sorted({behave.effective_kind(params[("query", n)]["schema"], comps) for n in missing if ("query", n) in params})
        V("request.query_keys", {"extra": bool(extra), "missing": bool(missing), "kinds": kinds[:1]}, f"extra={extra} missing={missing}")
    for nm, pairs in exp_q.items():
        got = q.get(nm)
        if got is None:
            continue
        p = params[("query", nm)]
        if len(got) != len(pairs):
            V("request.query_value", {"kind": behave.effective_kind(p["schema"], comps), "why": "count"}, f"{nm}: {got} vs {pairs}")
            continue
        for text, (val, sch) in zip(got, pairs):
            _cmp_text(V, "request.query_value", text, val, {"schema": sch, "required": p["required"]}, comps, "query")
    # --- headers
    hm = http.header_map(req)
    for (loc, nm), p in params.items():
        if loc != "header":
            continue
        got = hm.get(nm.lower())
        if (loc, nm) in given:
            if not got:
                V("request.header_present", {"kind": behave.effective_kind(p["schema"], comps)}, nm)
            else:
                _cmp_text(V, "request.header_value", got[0], given[(loc, nm)], p, comps, "header")
        elif got:
            V("request.header_absent", {"kind": behave.effective_kind(p["schema"], comps)}, f"{nm}={got}")
    # --- cookies
    ck = http.cookies_of(req)
    for (loc, nm), p in params.items():
        if loc != "cookie":
            continue
        if (loc, nm) in given:
            if nm not in ck:
                V("request.cookie_present", {"kind": behave.effective_kind(p["schema"], comps)}, f"{nm} not in {ck}")
            else:
                _cmp_text(V, "request.cookie_value", ck[nm], given[(loc, nm)], p, comps, "cookie")
        elif nm in ck:
            V("request.cookie_absent", {"kind": behave.effective_kind(p["schema"], comps)}, f"{nm}={ck[nm]}")
    # --- security
    if auth is not None:
        hname, hval = auth
        if hm.get(hname.lower(), [None])[0] != hval:
            V("request.auth_header", {"secured": secured}, f"want {hname}: {hval}, got {hm.get(hname.lower())}")
    # --- body
    if call.get("body") is not None and op["body"].get("same_model"):
        # the caller cannot say which of the two media types is meant: the request must be a consistent instance of one of them
        _bi, val = call["body"]
        ct = hm.get("content-type", [""])[0]
        as_json = as_form = None
        try:
            as_json = json.loads(req["content"])
        except ValueError:
            pass
        try:
            as_form = dict(urllib.parse.parse_qsl(req["content"].decode("utf-8"), keep_blank_values=True, strict_parsing=True))
        except (ValueError, UnicodeDecodeError):
            pass
        ok_json = ct == "application/json" and as_json is not None and instances.json_eq(as_json, val)
        ok_form = ct == "application/x-www-form-urlencoded" and as_form is not None and as_form == {k: str(v) for k, v in val.items()}
        ctx.label("one_model_two_media_types")
        if not (ok_json or ok_form):
            V("request.body_matches_one_declared_media_type", {"media": "json+form", "one_model_two_media_types": True},
              f"Content-Type {ct!r} with body {req['content'][:120]!r} for {val!r}")
    elif call.get("body") is not None:
        bi, val = call["body"]
        mt, bs = op["body"]["content"][bi]
        kind = media_kind(mt)
        ct = hm.get("content-type", [""])[0]
        bsite = {"media": kind}
        if kind == "json":
            if ct != mt:
                V("request.content_type", bsite, f"{ct!r} vs {mt!r}")
            try:
                sent = json.loads(req["content"])
                if not instances.json_eq(sent, val):
                    V("request.body_json", {**bsite, **behave.locate(val, sent, bs, comps, True, True)}, instances.first_diff(val, sent))
            except ValueError as e:
                V("request.body_json", {**bsite, "why": "not_json"}, f"{e}: {req['content'][:100]!r}")
        elif kind == "form":
            if ct != mt:
                V("request.content_type", bsite, f"{ct!r} vs {mt!r}")
            pairs = dict(urllib.parse.parse_qsl(req["content"].decode("utf-8"), keep_blank_values=True))
            if set(pairs) != set(val):
                V("request.body_form_keys", bsite, f"{sorted(pairs)} vs {sorted(val)}")
            pm = {p[0]: p[1] for p in _resolve(bs, comps).get("props", [])}
            for k, v in val.items():
                if k in pairs and k in pm:
                    _cmp_text(V, "request.body_form_value", pairs[k], v, {"schema": pm[k], "required": True}, comps, "form")
        elif kind == "multipart":
            if not ct.lower().startswith("multipart/form-data"):
                V("request.content_type", bsite, f"{ct!r} vs {mt!r}")
            parts = http.decode_multipart(req)
            if parts is None:
                V("request.body_multipart", {**bsite, "why": "undecodable"}, ct)
            else:
                names = [p["name"] for p in parts]
                if sorted(names) != sorted(val):
                    V("request.body_multipart_parts", bsite, f"{sorted(names)} vs {sorted(val)}")
                pm = {p[0]: p[1] for p in _resolve(bs, comps).get("props", [])}
                for part in parts:
                    k = part["name"]
                    if k not in val or k not in pm:
                        continue
                    if pm[k]["k"] == "binary":
                        if part["payload"] != val[k]["$bytes"].encode("latin-1"):
                            V("request.body_multipart_file", bsite, f"{k}: {part['payload']!r}")
                    else:
                        try:
                            text = part["payload"].decode("utf-8")
                        except UnicodeDecodeError:
                            V("request.body_multipart_value", {**bsite, "kind": pm[k]["k"], "why": "not_utf8"}, repr(part["payload"]))
                            continue
                        if isinstance(val[k], (dict, list)):
                            # containers travel as a JSON-encoded part
                            try:
                                same_json = instances.json_eq(json.loads(text), val[k])
                            except ValueError:
                                same_json = False
                            if not same_json:
                                V("request.body_multipart_value", {"loc": "multipart", "kind": behave.effective_kind(pm[k], comps)},
                                  f"sent {text!r} for argument {val[k]!r}")
                            continue
                        if pm[k]["k"] == "union" and isinstance(val[k], int) and not isinstance(val[k], bool):
                            if text != str(val[k]):   # the integer alternative of a model-or-integer part travels as its decimal text
                                V("request.body_multipart_value", {"loc": "multipart", "kind": "union"}, f"sent {text!r} for argument {val[k]!r}")
                            continue
                        _cmp_text(V, "request.body_multipart_value", text, val[k], {"schema": pm[k], "required": True}, comps, "multipart")
        elif kind == "octet":
            if ct != mt:
                V("request.content_type", bsite, f"{ct!r} vs {mt!r}")
            if req["content"] != val.encode("latin-1"):
                V("request.body_bytes", bsite, f"{req['content']!r} vs {val!r}")


def _cmp_text(V, clause, text, value, p, comps, loc):
    sch = p["schema"]
    kind = behave.effective_kind(sch, comps)
    try:
        parsed = http.parse_back(text, sch, comps)
        ok = http.value_equals(parsed, value, sch, comps)
    except (ValueError, OverflowError, TypeError) as e:
        ok = False
        parsed = f"<unparseable: {e}>"
    if not ok:
        V(clause, {"loc": loc, "kind": kind}, f"sent {text!r} parsed {parsed!r} for argument {value!r}")


def _norm_capture(req):
    hm = {k: v for k, v in http.header_map(req).items() if k not in ("user-agent", "content-length")}
    ct = hm.get("content-type", [""])[0]
    content = req["content"]
    if ct.lower().startswith("multipart/form-data"):
        parts = http.decode_multipart(req)
        content = [(p["name"], p["filename"], p["content_type"], p["payload"]) for p in parts or []]
        hm["content-type"] = ["multipart/form-data"]
    return {"method": req["method"], "raw_path": req["raw_path"], "headers": hm, "content": content}


def run(case, ctx):
    if case.get("kind") == "client_history":
        return _run_client_history(case, ctx)
    ir = case["ir"]
    comps = docs.comp_map(ir)
    doc = docs.render(ir)
    if case.get("by_ref"):
        from . import c20

        doc, n_moved = c20.by_reference(doc, ir, case["by_ref"]["bits"], case["by_ref"]["keys"])
        if n_moved:
            ctx.label("declared_under_components")
    res = sut.generate(doc, cfg=case.get("cfg") or {})
    try:
        if res.exc is not None or not res.accepted:
            ctx.skip("generator_rejected_or_crashed")
            return
        try:
            pkg = sut.Loaded(res.package_dir)
        except BaseException as e:  # noqa: BLE001
            if behave._is_ctl(e):
                raise
            ctx.violation("package.imports", {"exc": type(e).__name__}, repr(e)[:300])   # the documents are in the domain: a package that cannot be imported decides the property negatively
            return
        with pkg:
            for call in case["calls"]:
                op = ir["ops"][call["op"]]
                er = locate.find_endpoint(res, op)
                if er is None:
                    ctx.label("endpoint_not_generated")
                    continue
                try:
                    mod = pkg.mod(er.module)
                except BaseException as e:  # noqa: BLE001
                    if behave._is_ctl(e):
                        raise
                    ctx.label("endpoint_import_failed")
                    continue
                _one_call(ctx, pkg, mod, er, op, call, comps)
    finally:
        env.rm(res.out)


def _one_call(ctx, pkg, mod, er, op, call, comps):
    fn = getattr(mod, "sync_detailed", None)
    afn = getattr(mod, "asyncio_detailed", None)
    site_base = {}
    if call.get("body") is not None:
        mt_, bs_ = op["body"]["content"][call["body"][0]]
        site_base["body"] = media_kind(mt_)
        site_base["body_schema"] = _resolve(bs_, comps).get("k")
        if len(op["body"]["content"]) > 1:
            site_base["multi_body"] = True
            if any(_resolve(x[1], comps).get("k") in ("array", "enum") for x in op["body"]["content"]):
                site_base["multi_body_has_array"] = True  # array or Literal enum: a subscripted generic in isinstance()
            if isinstance(call["body"][1], int) and not isinstance(call["body"][1], bool) and site_base["body_schema"] == "num":
                site_base["int_for_float"] = True
    if fn is None or afn is None:
        ctx.violation("endpoint.has_variants", {"sync": fn is not None, "asyncio": afn is not None})
        return
    sig = inspect.signature(fn)
    secured = bool(op.get("security"))
    # the client parameter of a secured operation is AuthenticatedClient only
    ann = sig.parameters["client"].annotation if "client" in sig.parameters else None
    AC, C = pkg.client.AuthenticatedClient, pkg.client.Client
    if secured and ann is not AC:
        ctx.violation("security.requires_authenticated_client", {"annotation": str(ann)[:60]})
    if not secured and ann is AC:
        ctx.violation("security.client_not_required", {"annotation": str(ann)[:60]})
    params = {(p["in"], p["name"]): p for p in op["params"] if not p.get("shadowed")}
    kwargs = {}
    try:
        for name, loc, val in call["args"]:
            p = params.get((loc, name))
            if p is None:
                continue
            py = er.pynames.get((loc, name))
            if py is None or py not in sig.parameters:
                ctx.violation("signature.has_parameter", {"loc": loc, "kind": behave.effective_kind(p["schema"], comps)}, f"{name} -> {py}")
                return
            a = sig.parameters[py].annotation
            kwargs[py] = http.to_python(val, p["schema"], comps, lambda s, a=a: http.enum_class_from_annotation(a))
        if call.get("body") is not None:
            kwargs["body"] = _body_object(pkg, fn, op, call["body"], comps)
    except behave_missing as e:
        ctx.label(f"missing:{e}")
        return
    except BaseException as e:  # noqa: BLE001
        if behave._is_ctl(e):
            raise
        ctx.label("argument_build_failed:" + type(e).__name__)
        return
    used_auth = secured or (len(call["args"]) % 2 == 1)
    prefix, hname = (("Token", "X-Auth") if len(call["args"]) % 3 == 0 else (None, None))
    if len(call["args"]) % 5 == 4:
        prefix = ""
    auth = None
    if used_auth and call.get("via") == "httpx_args":
        tok = "tok123"
        pfx = "Bearer" if prefix is None else prefix
        auth = (hname or "Authorization", f"{pfx} {tok}" if pfx else tok)
    captures = []
    documented = {int(r[0]) for r in op["responses"]}
    status = next(s for s in (418, 410, 406, 302, 303) if s not in documented)
    for variant, f, runner in (("sync", fn, http.run_sync), ("asyncio", afn, http.run_async)):
        if variant == "asyncio" and site_base.get("body") == "octet" and "KF-C03-03" in _live and not ctx.replay:
            ctx.exclude("KF-C03-03")
            continue
        cap = http.Capture(status=status)
        client = http.make_client(pkg, cap, secured=used_auth, via=call.get("via", "httpx_args"), prefix=prefix, header_name=hname)
        ctx.evals()
        try:
            kw = dict(kwargs)
            if "body" in kw and hasattr(kw["body"], "payload") and hasattr(kw["body"].payload, "seek"):
                kw["body"].payload.seek(0)
            _rewind_files(kw.get("body"))
            runner(f, client=client, **kw)
        except BaseException as e:  # noqa: BLE001
            if behave._is_ctl(e):
                raise
            locs = sorted({(a[1], behave.effective_kind(params[(a[1], a[0])]["schema"], comps)) for a in call["args"] if (a[1], a[0]) in params})
            culprit = _culprit(locs, e)
            ctx.violation("call.raises", {"exc": type(e).__name__, "variant": variant, **site_base, **culprit}, f"{e!r} args={call['args']!r}"[:400])
            http.close_client(client)
            return
        finally:
            pass
        http.close_client(client)
        if len(cap.requests) != 1:
            ctx.violation("request.exactly_one", {"n": len(cap.requests), "variant": variant})
            return
        captures.append(cap.requests[0])
        check_request(ctx, cap.requests[0], op, call, comps, secured, auth,
                      {**site_base, **({"variant": variant} if variant != "sync" else {})})
    if len(captures) == 2 and _norm_capture(captures[0]) != _norm_capture(captures[1]):
        ctx.violation("request.sync_async_identical", {}, f"{_norm_capture(captures[0])} vs {_norm_capture(captures[1])}"[:600])
    locs = {a[1] for a in call["args"]}
    if (len(call["args"]) >= 2 and len(locs) >= 2) or call.get("body") is not None:
        ctx.nontrivial([op, call])
        if ctx.sample is None:
            ctx.sample = {"operation": {"method": op["method"], "path": op["path"],
                                        "params": [[p["name"], p["in"], p["schema"].get("k"), p["required"]] for p in op["params"]],
                                        "body_media": [c[0] for c in (op.get("body") or {}).get("content", [])]},
                          "call": call, "captured": {"raw_path": captures[0]["raw_path"], "query": captures[0]["query"],
                                                     "content": captures[0]["content"][:200].decode("latin-1")}}
    for a in call["args"]:
        p = params.get((a[1], a[0]))
        if p:
            ctx.label(f"arg:{a[1]}:{behave.effective_kind(p['schema'], comps)}")
    if call.get("body") is not None:
        ctx.label("body:" + media_kind(op["body"]["content"][call["body"][0]][0]))
    if secured:
        ctx.label("secured")


def _rewind_files(body):
    if body is None:
        return
    for v in getattr(body, "__dict__", {}).values() if hasattr(body, "__dict__") else []:
        pl = getattr(v, "payload", None)
        if pl is not None and hasattr(pl, "seek"):
            pl.seek(0)
    try:
        import attrs

        if attrs.has(type(body)):
            for f in attrs.fields(type(body)):
                v = getattr(body, f.name, None)
                pl = getattr(v, "payload", None)
                if pl is not None and hasattr(pl, "seek"):
                    pl.seek(0)
    except Exception:
        pass


def _culprit(locs, e) -> dict:
    """Attribute an exception during a call to a (location, kind) when exactly one listed narrow class is present."""
    msg = str(e)
    cookie_ns = [k for (loc, k) in locs if loc == "cookie" and k not in ("str", "enum", "ref:enum")]
    if cookie_ns:
        return {"loc": "cookie", "kind": cookie_ns[0]}
    if "Header value must be str or bytes" in msg:
        hk = [k for (loc, k) in locs if loc == "header"]
        return {"loc": "header", "kind": "uuid" if "uuid" in hk else (hk[0] if hk else "?")}
    return {"locs": sorted({loc for loc, _ in locs})[:1]}
