"""C04 - responses are decoded per documented status and media type."""
from __future__ import annotations

import copy
import datetime as dt
import enum
import json
import re
import uuid
from http import HTTPStatus

from hypothesis import strategies as st

from .. import behave, env, http, locate, sut
from ..gen import docs, instances

ID = "C04"
BUDGET = {"quick": 800, "thorough": 10000}
RULE = ("documents with 1-3 operations each documenting 1-3 responses (standard statuses, plus 'default'/'2XX'/'600' keys; "
        "media application/json, +json suffixes, text/plain, text/html, application/octet-stream, none, unsupported xml; "
        "schemas of every kind incl. models, arrays of models, unions, enums, dates, $ref) x served responses: every "
        "documented status with an encoded schema-valid instance, plus undocumented standard statuses, x "
        "raise_on_unexpected_status x {sync_detailed, sync, asyncio_detailed, asyncio} x literal_enums. An evaluation = one "
        "call. Non-trivial = operation documents >=2 statuses of different sources, or a union/array/model response, or "
        "an undocumented status is served. distinct = hash(operation, served response, variant).")
ASSUMPTIONS = [
    "for an empty/Any schema or a non-string schema under text/* only status, headers and content are asserted",
    "parsed values are compared by re-encoding them generically (models via to_dict, dates via isoformat, enums via value) "
    "plus a kind-specific type check; union members are not pinned to one branch",
    "non-standard server status codes (299, 599) are served only while the finding covering them is stale",
]

_live: set[str] = set()


def configure(live_ids, tier, opts):
    global _live
    _live = set(live_ids)


STD = [s.value for s in HTTPStatus]


@st.composite
def cases(draw, tier):
    prof = docs.profile(max_schemas=3, max_props=3, max_ops=3, max_depth=2, bodies=False, odd_media_pairs=True,
                        date_datetime_union=False, two_array_union=False, bool_intenum_union=False)
    ir = draw(docs.doc_ir(prof))
    comps = docs.comp_map(ir)
    serves = []
    shared = None
    if len(ir["ops"]) >= 2 and draw(st.integers(0, 2)) == 0:
        # one response declared once under components.responses and used by every operation under the same status; its schema is
        # an inline object (or an array of one), so a class has to be named for it
        inline = {"k": "object", "props": [["detail", {"k": "str"}, True], ["code", {"k": "int"}, False]], "addl": None, "allOf": []}
        shared = [422, ["application/json", inline if draw(st.booleans()) else {"k": "array", "items": inline}]]
    for oi, op in enumerate(ir["ops"]):
        if shared is not None and not any(x[0] == 422 for x in op["responses"]):
            op["responses"].append(copy.deepcopy(shared))
        op["params"] = [p for p in op["params"] if p["in"] == "path"]
        for p in op["params"]:
            p["schema"] = {"k": "int"}
        # extra response flavours
        r = draw(st.integers(0, 9))
        if r == 0:
            op["responses"].append(["default", ["application/json", {"k": "str"}]])
        elif r == 1:
            op["responses"].append(["2XX", None])
        elif r == 2:
            op["responses"].append([600, None])
        elif r == 3:
            free = [s for s in docs.STATUSES if s not in [x[0] for x in op["responses"]]]
            if free:
                op["responses"].append([free[0], ["application/xml", {"k": "str"}]])
        documented = [x for x in op["responses"] if isinstance(x[0], int) and x[0] in STD]
        for status, content in documented:
            n = 2 if content is not None else 1
            for _ in range(n):
                body = None
                if content is not None and content[1] is not None:
                    mt, s = content
                    try:
                        if s.get("k") == "binary" and not mt == "application/octet-stream":
                            # a binary schema under a text/JSON media type has no defined decoding: the response is only
                            # *documented* (so that it is parsed next to the others), never served or judged
                            continue
                        elif mt.startswith("text/"):
                            body = {"text": draw(instances.plain_text)}
                        elif mt == "application/octet-stream":
                            body = {"bytes": draw(st.binary(max_size=24)).decode("latin-1")}
                        elif mt == "application/xml":
                            body = {"text": "<a/>"}
                        else:
                            body = {"json": draw(instances.instance(s, comps))}
                    except instances.Unsatisfiable:
                        continue
                serves.append({"op": oi, "status": status, "body": body, "raise": draw(st.booleans()),
                               "variant": draw(st.sampled_from(["sync_detailed", "sync", "asyncio_detailed", "asyncio"]))})
        undocumented = [s for s in (200, 201, 204, 301, 400, 404, 418, 500, 503) if s not in [x[0] for x in documented]]
        if "KF-C04-01" not in _live:
            undocumented += [299, 599]
        for _ in range(2):
            serves.append({"op": oi, "status": draw(st.sampled_from(undocumented)),
                           "body": draw(st.sampled_from([None, {"json": {"a": 1}}, {"text": "oops"}, {"bytes": "\xff\xfe\x00"}])),
                           "raise": draw(st.booleans()),
                           "variant": draw(st.sampled_from(["sync_detailed", "sync", "asyncio_detailed", "asyncio"]))})
    case = {"ir": ir, "cfg": {"literal_enums": draw(st.booleans())}, "serves": serves, "shared_422": shared is not None}
    if draw(st.integers(0, 4)) == 0:
        # every response media type is written under an alias that the configuration maps back (content_type_overrides): the
        # responses must be decoded exactly as if the real media type had been written
        case["alias_media_types"] = True
    if draw(st.integers(0, 2)) == 0:
        # the same document with a drawn subset of responses (and path parameters) declared under components and used by $ref
        from . import c20

        case["by_ref"] = {"bits": draw(st.lists(st.integers(0, 7), min_size=6, max_size=16)),
                          "keys": draw(st.lists(st.sampled_from(c20.KEY_WORDS), min_size=12, max_size=12, unique=True))}
    return case


def strategy(tier):
    return cases(tier)


def supported_source(mt: str) -> str | None:
    base = mt.split(";")[0].strip()
    if base.startswith("text/"):
        return "text"
    if base == "application/json" or base.endswith("+json"):
        return "json"
    if base == "application/octet-stream":
        return "bytes"
    return None


def jsonify(v, depth=0):
    """Generic re-encoding of a decoded Python value to JSON (harness reference, independent of generated to_dict of parents)."""
    if depth > 12:
        return v
    if isinstance(v, enum.Enum):
        return v.value
    if v is None or isinstance(v, (bool, int, float, str)):
        return v
    if isinstance(v, dt.datetime):
        return v.isoformat()
    if isinstance(v, dt.date):
        return v.isoformat()
    if isinstance(v, uuid.UUID):
        return str(v)
    if isinstance(v, list):
        return [jsonify(x, depth + 1) for x in v]
    if isinstance(v, dict):
        return {k: jsonify(x, depth + 1) for k, x in v.items()}
    if hasattr(v, "to_dict"):
        return v.to_dict()
    return {"<unencodable>": type(v).__name__}


def type_ok(v, s, comps, literal: bool) -> bool:
    s = _resolve(s, comps)
    k = s.get("k")
    if v is None:
        return True
    if k == "date":
        return isinstance(v, dt.date) and not isinstance(v, dt.datetime)
    if k == "datetime":
        return isinstance(v, dt.datetime)
    if k == "uuid":
        return isinstance(v, uuid.UUID)
    if k == "object":
        return hasattr(v, "to_dict")
    if k == "enum":
        return (not isinstance(v, enum.Enum)) if literal else isinstance(v, enum.Enum)
    if k == "array":
        return isinstance(v, list) and all(type_ok(x, s["items"], comps, literal) for x in v)
    if k == "str":
        return isinstance(v, str)
    if k == "bool":
        return isinstance(v, bool)
    if k == "int":
        return isinstance(v, int) and not isinstance(v, bool)
    if k == "num":
        return isinstance(v, (int, float)) and not isinstance(v, bool)
    return True


def _resolve(s, comps):
    n = 0
    while s.get("k") == "ref" and n < 5:
        s = comps.get(s["name"], {"k": "missing"})
        n += 1
    return s


def run(case, ctx):
    ir = case["ir"]
    comps = docs.comp_map(ir)
    doc = docs.render(ir)
    cfg = dict(case.get("cfg") or {})
    if case.get("alias_media_types"):
        overrides = {}
        for item in doc["paths"].values():
            for m in docs.METHODS:
                for r in ((item.get(m) or {}).get("responses") or {}).values():
                    content = r.get("content")
                    if not content:
                        continue
                    for mt in list(content):
                        # text/* aliases for non-text types and the other way round: the alias must never be read for itself
                        alias = ("application/x-alias-" if mt.startswith("text/") else "text/x-alias-") + re.sub(r"[^a-z0-9]", "-", mt.lower())
                        overrides[alias] = mt
                        content[alias] = content.pop(mt)
        if overrides:
            cfg["content_type_overrides"] = overrides
            ctx.label("aliased_media_types")
    if case.get("shared_422"):
        users = [o for item in doc["paths"].values() for m, o in item.items() if m in docs.METHODS and "422" in (o.get("responses") or {})]
        if len(users) >= 2 and all(u["responses"]["422"] == users[0]["responses"]["422"] for u in users):
            doc.setdefault("components", {}).setdefault("responses", {})["ZzUnprocessable"] = copy.deepcopy(users[0]["responses"]["422"])
            for u in users:
                u["responses"]["422"] = {"$ref": "#/components/responses/ZzUnprocessable"}
            ctx.label("one_component_response_shared_by_operations")
    if case.get("by_ref"):
        from . import c20

        doc, n_moved = c20.by_reference(doc, ir, case["by_ref"]["bits"], case["by_ref"]["keys"])
        if n_moved:
            ctx.label("declared_under_components")
    res = sut.generate(doc, cfg=cfg)
    literal = bool(cfg.get("literal_enums"))
    try:
        if res.exc is not None or not res.accepted:
            ctx.skip("generator_rejected_or_crashed")
            return
        try:
            pkg = sut.Loaded(res.package_dir)
        except BaseException as e:  # noqa: BLE001
            if behave._is_ctl(e):
                raise
            ctx.violation("package.imports", {"exc": type(e).__name__}, repr(e)[:300])   # the documents are in the domain: a package that cannot be imported decides the property negatively
            return
        with pkg:
            for sv in case["serves"]:
                op = ir["ops"][sv["op"]]
                er = locate.find_endpoint(res, op)
                if er is None:
                    ctx.label("endpoint_not_generated")
                    continue
                try:
                    mod = pkg.mod(er.module)
                except BaseException as e:  # noqa: BLE001
                    if behave._is_ctl(e):
                        raise
                    ctx.label("endpoint_import_failed")
                    continue
                _serve(ctx, pkg, mod, er, op, sv, comps, literal)
    finally:
        env.rm(res.out)


def _serve(ctx, pkg, mod, er, op, sv, comps, literal):
    status = sv["status"]
    entry = None
    for st_, content in op["responses"]:
        if st_ == status and isinstance(st_, int) and st_ in STD:
            entry = [st_, content]
            break
    source = None
    schema = None
    documented = False
    if entry is not None:
        if entry[1] is None:
            documented, source = True, "none"
        else:
            mt, schema = entry[1]
            source = supported_source(mt)
            documented = source is not None   # an unsupported media type means the response is (audibly) omitted
            if schema is None and documented:
                source = "none"
    body = sv.get("body")
    raw = b""
    headers = {"x-verif": "abc"}
    if body is not None:
        if "json" in body:
            raw = json.dumps(body["json"]).encode()
            headers["content-type"] = entry[1][0] if (entry and entry[1]) else "application/json"
        elif "text" in body:
            raw = body["text"].encode("utf-8")
            headers["content-type"] = (entry[1][0] if (entry and entry[1]) else "text/plain") + "; charset=utf-8"
        else:
            raw = body["bytes"].encode("latin-1")
            headers["content-type"] = "application/octet-stream"
    variant = sv["variant"]
    fn = getattr(mod, variant, None)
    site = {"variant": variant, "source": source or "undocumented", "documented": documented,
            "schema": behave.describe(schema, comps) if schema else {"kind": "none"}}
    if not (100 <= status <= 599):
        return
    if status not in STD:
        site["nonstandard_status"] = True
    if fn is None:
        if variant in ("sync", "asyncio"):
            # plain variants exist only when some response has a typed body
            typed = any(c is not None and c[1] is not None and supported_source(c[0]) and c[1].get("k") != "any"
                        and isinstance(s_, int) and s_ in STD for s_, c in op["responses"])
            if typed:
                ctx.violation("endpoint.has_plain_variant", {"variant": variant}, er.module)
            else:
                ctx.label("no_plain_variant")
        else:
            ctx.violation("endpoint.has_variants", {"variant": variant}, er.module)
        return
    cap = http.Capture(status=status, content=raw, headers=headers)
    client = http.make_client(pkg, cap, secured=bool(op.get("security")), raise_on_unexpected=bool(sv.get("raise")))
    kwargs = {}
    for p in op["params"]:
        py = er.pynames.get((p["in"], p["name"]))
        if py:
            kwargs[py] = 7
    ctx.evals()
    raised = None
    result = None
    try:
        if variant.startswith("asyncio"):
            result = http.run_async(fn, client=client, **kwargs)
        else:
            result = fn(client=client, **kwargs)
    except BaseException as e:  # noqa: BLE001
        if behave._is_ctl(e):
            raise
        raised = e
    finally:
        http.close_client(client)
    detailed = variant.endswith("_detailed")
    US = pkg.errors.UnexpectedStatus
    ctx.label(f"src:{source or 'undocumented'}", f"variant:{variant}")
    if not documented:
        if sv.get("raise"):
            if not isinstance(raised, US):
                ctx.violation("undocumented.raises_unexpected_status", {**site, "got": type(raised).__name__ if raised else "no_exception"},
                              f"status {status}: {raised!r} / {result!r}"[:300])
            else:
                if getattr(raised, "status_code", None) != status or getattr(raised, "content", None) != raw:
                    ctx.violation("undocumented.error_carries_status_and_body", site, f"{raised.status_code} {raised.content!r}")
        else:
            if raised is not None:
                ctx.violation("undocumented.no_parsed_value", {**site, "exc": type(raised).__name__}, repr(raised)[:300])
            else:
                parsed = result.parsed if detailed else result
                if parsed is not None:
                    ctx.violation("undocumented.no_parsed_value", site, repr(parsed)[:200])
                if detailed:
                    _check_raw(ctx, result, status, raw, headers, site)
        ctx.nontrivial([op["path"], op["method"], sv])
        return
    # documented + supported
    if raised is not None:
        ctx.violation("documented.decodes", {**site, "exc": type(raised).__name__}, f"status {status}: {raised!r} body={raw[:120]!r}"[:400])
        return
    parsed = result.parsed if detailed else result
    if detailed:
        _check_raw(ctx, result, status, raw, headers, site)
    if source == "none":
        if parsed is not None:
            ctx.violation("documented.none_is_none", site, repr(parsed)[:200])
    elif source == "json" and body is not None and "json" in body:
        sk = _resolve(schema, comps).get("k")
        if sk in ("any", "binary"):
            ctx.label("any_or_misfit_schema_not_asserted")
        else:
            value = body["json"]
            enc = jsonify(parsed)
            if not instances.json_eq(enc, value):
                ctx.violation("documented.json_value", {**site, **{"at": behave.locate(value, enc, schema, comps, True, True)}},
                              f"{instances.first_diff(value, enc)} | parsed={parsed!r}"[:400])
            elif not type_ok(parsed, schema, comps, literal):
                ctx.violation("documented.json_type", site, f"{type(parsed).__name__}: {parsed!r}"[:300])
    elif source == "text" and body is not None and "text" in body:
        sk = _resolve(schema, comps).get("k") if schema else "none"
        if sk in ("str", "none"):
            if parsed != body["text"]:
                ctx.violation("documented.text_is_str", site, f"{parsed!r} vs {body['text']!r}"[:300])
        else:
            ctx.label("text_nonstring_not_asserted")
    elif source == "bytes" and body is not None and "bytes" in body:
        try:
            data = parsed.payload.read()
        except Exception as e:  # noqa: BLE001
            data = f"<{type(e).__name__}>"
        if data != raw:
            ctx.violation("documented.bytes_is_file", site, f"{data!r} vs {raw!r}"[:300])
    sources = {(("none" if c is None or c[1] is None else supported_source(c[0]))) for s_, c in op["responses"] if isinstance(s_, int)}
    sk = _resolve(schema, comps).get("k") if schema else None
    if len(sources) >= 2 or sk in ("union", "array", "object"):
        ctx.nontrivial([op["path"], op["method"], sv])
        if ctx.sample is None:
            ctx.sample = {"operation": {"method": op["method"], "path": op["path"], "responses": op["responses"]}, "served": sv}


def _check_raw(ctx, result, status, raw, headers, site):
    try:
        if result.status_code != HTTPStatus(status) or int(result.status_code) != status:
            ctx.violation("detailed.status", site, f"{result.status_code!r} vs {status}")
        if result.content != raw:
            ctx.violation("detailed.content", site, f"{result.content!r} vs {raw!r}"[:300])
        for k, v in headers.items():
            if result.headers.get(k) != v:
                ctx.violation("detailed.headers", site, f"{k}: {result.headers.get(k)!r} vs {v!r}")
    except BaseException as e:  # noqa: BLE001
        if behave._is_ctl(e):
            raise
        ctx.violation("detailed.shape", {**site, "exc": type(e).__name__}, repr(e)[:200])
