"""C05 - document text is only ever data, never code."""
from __future__ import annotations

import ast
import copy
import io
import os
import re
import tokenize
import tomllib

from hypothesis import strategies as st

from .. import env, pyast, sut

ID = "C05"
BUDGET = {"quick": 320, "thorough": 8000}
EXHAUSTIVE = False
RULE = ("a rich carrier document (models with every property kind, both enum styles, const, defaults, unions, parameters in four "
        "locations, all body types, several responses, tags, all info fields) whose string-valued leaves and name-bearing map "
        "keys are discovered by a generic walker (slots); payload classes framed by alphanumeric canaries: \" ' \"\"\" ''' \\\" \\\\\" "
        "trailing backslash, backslash-n text, real newline + statement, {x} {{ }, # comment, \"\"\"+CALL()+\"\"\", \"]; CALL() #, \\N{..}/\\x41 "
        "escape text, TOML/setup.py terminators, %s, a control character. Part 1 (every run, complete): every slot x every class, "
        "one generation each under meta=setup; part 2: Hypothesis combinations of 2-8 slots with random classes x meta x "
        "literal_enums x docstrings_on_attributes. Structured strings are embedded so they stay acceptable (path: extra segment; "
        "media type: parameter value and +json subtype; version: suffix; component key: consistently at definition and every $ref). "
        "Non-trivial = the generator accepted the document (every case carries a hostile payload). distinct = hash(slot set, classes, config).")
ASSUMPTIONS = [
    "no generated module is imported or executed in this check: 'becomes code' is judged on the AST (a Name/Attribute/Call whose "
    "identifier equals the call token), comments on the token stream, syntax by compile()",
    "the canary inside a longer sanitised identifier is data (that is what class and function names legitimately become)",
    "fidelity is judged statically: some string constant of the tree equals the original text (paths modulo placeholder renaming)",
    "a piece rejected with a diagnostic (and absent from the tree) is an acceptable outcome",
]

_live: set[str] = set()


def configure(live_ids, tier, opts):
    global _live
    _live = set(live_ids)


CALL = "zqCALLMEqz"
CA, CB = "zqA7", "7Bqz"
PAYLOADS = {
    "dq": '"', "sq": "'", "tdq": '"""', "tsq": "'''", "bs_dq": '\\"', "bsbs_dq": '\\\\"', "trail_bs": "\\", "bs_n_text": "\\n",
    "newline_stmt": "\n" + CALL + "()\n", "fmt_braces": "{" + CALL + "}", "open_braces": "{{", "close_brace": "}", "hash_comment": " # " + CALL,
    "tdq_call": '"""+' + CALL + '()+"""', "idx_call": '"]; ' + CALL + "() #", "sq_idx_call": "']; " + CALL + "() #", "named_escape": "\\N{BULLET}",
    "hex_escape": "\\x41", "percent": "%s %(x)s", "bell": "\x07", "tdq_nl_call": '"""\n' + CALL + '()\n"""', "cr": "\r" + CALL + "()",
    # boundary classes: the hostile character is the very last / very first character of the text
    "trail_dq": '"', "trail_sq": "'", "lead_dq": '"', "lead_bs": "\\",
    # quote runs and backslash-quote runs: what an escaper that works on groups of three quotes gets wrong
    "bs_tdq": '\\"""', "bsbs_tdq": '\\\\"""', "dq4": '"' * 4, "dq5": '"' * 5, "dq7": '"' * 7, "dq8": '"' * 8,
    "bs_tdq_call": '\\"""+' + CALL + '()+"""',
    # texts whose sanitised form starts with a digit / is reached through a leading underscore or sign: the generator prefixes such
    # names, and what it prefixes must be the sanitised text
    "lead_digit_dq": '"', "lead_digit_idx_call": '"]; ' + CALL + "() #", "lead_us_dq": '"', "lead_plus_dq": '"',
    # brace groups that are not a placeholder name: replacement fields of str.format / f-strings / % templates holding an expression
    "fmt_call": "{" + CALL + "()}", "fmt_semicolon": "{;" + CALL + "}", "fmt_attr": "{0." + CALL + "}", "fmt_conv": "{" + CALL + "!r:>{" + CALL + "}}",
    "pct_call": "%(" + CALL + ")s",
}


def payload_text(cls: str, slot: int = 0) -> str:
    """Canary-framed payload; the slot number makes the canaries of different slots distinct (two enum values must not
    collapse into one member name just because the hostile characters are stripped)."""
    frag = PAYLOADS[cls]
    a, b = f"{CA}s{slot}s", f"s{slot}s{CB}"
    if cls in ("trail_bs", "trail_dq", "trail_sq"):
        return a + "x" + frag          # the payload must END in the hostile character
    if cls in ("lead_dq", "lead_bs"):
        return frag + "x" + b          # ... or START with it
    if cls in ("lead_digit_dq", "lead_digit_idx_call"):
        return "9" + frag + "x" + b
    if cls == "lead_us_dq":
        return "_" + a + frag + b
    if cls == "lead_plus_dq":
        return "+1" + frag + "x" + b
    return a + frag + b


CARRIER = {
    "openapi": "3.0.3",
    "info": {"title": "Carrier API", "version": "1.2.3", "description": "Info description"},
    "tags": [{"name": "things", "description": "tag description"}],
    "paths": {
        "/things/{thingId}": {
            "parameters": [{"name": "thingId", "in": "path", "required": True, "schema": {"type": "string"}, "description": "path param description"}],
            "post": {
                "operationId": "createThing", "summary": "Operation summary", "description": "Operation description", "tags": ["things", "other"],
                "parameters": [
                    {"name": "pageSize", "in": "query", "schema": {"type": "integer", "default": 10}, "description": "query description"},
                    {"name": "sortBy", "in": "query", "schema": {"type": "string", "default": "name", "description": "inner description"}},
                    {"name": "kindFilter", "in": "query", "schema": {"$ref": "#/components/schemas/Kind"}},
                    {"name": "X-Trace", "in": "header", "schema": {"type": "string"}},
                    {"name": "sid", "in": "cookie", "schema": {"type": "string"}},
                    {"name": "inlineEnum", "in": "query", "schema": {"type": "string", "enum": ["one", "two"]}},
                ],
                "requestBody": {"content": {
                    "application/json": {"schema": {"$ref": "#/components/schemas/Thing"}},
                    "application/x-www-form-urlencoded": {"schema": {"type": "object", "properties": {"formField": {"type": "string"}}}},
                    "multipart/form-data": {"schema": {"type": "object", "properties": {"fileField": {"type": "string", "format": "binary"}, "note": {"type": "string"}}}},
                }},
                "responses": {
                    "200": {"description": "ok response", "content": {"application/json": {"schema": {"$ref": "#/components/schemas/Thing"}}}},
                    "400": {"description": "bad", "content": {"application/problem+json": {"schema": {"$ref": "#/components/schemas/Problem"}}}},
                    "404": {"description": "text", "content": {"text/plain": {"schema": {"type": "string"}}}},
                },
            },
        },
        "/plain": {"get": {"operationId": "getPlain", "responses": {"200": {"description": "ok", "content": {"application/octet-stream": {"schema": {"type": "string", "format": "binary"}}}}}}},
    },
    "components": {"schemas": {
        "Kind": {"type": "string", "enum": ["alpha", "beta"], "description": "enum description"},
        "Level": {"type": "integer", "enum": [1, 2]},
        "Problem": {"type": "object", "title": "Problem Title", "description": "problem description", "properties": {"detail": {"type": "string"}}},
        "Thing": {
            "type": "object", "description": "Thing description", "required": ["name"], "example": {"name": "example name"},
            "additionalProperties": {"type": "string"},
            "properties": {
                "name": {"type": "string", "description": "name description", "example": "example text"},
                "nick": {"type": "string", "default": "default text"},
                "born": {"type": "string", "format": "date", "description": "date description"},
                "kind": {"$ref": "#/components/schemas/Kind"},
                "level": {"$ref": "#/components/schemas/Level"},
                "mode": {"type": "string", "enum": ["fast", "slow"], "default": "fast"},
                "maybeMode": {"type": "string", "enum": ["on", "off", None]},
                "fixed": {"const": "constant text"},
                "either": {"anyOf": [{"$ref": "#/components/schemas/Problem"}, {"type": "string"}], "description": "union description"},
                "tagsList": {"type": "array", "items": {"type": "string"}, "description": "array description"},
                "nested": {"type": "object", "title": "Nested Title", "description": "nested description", "properties": {"deep": {"type": "string", "default": "deep default"}}},
            },
        },
    }},
}

STRUCTURAL_KEYS = {"type", "in", "format", "$ref", "openapi", "required"}
NAME_MAPS = {"schemas", "properties", "paths", "content"}
FIDELITY_SLOTS = ("properties.<key>", "parameters[].name", ".enum[]", ".const", ".default", "paths.<key>", "content.<key>")


def walk_slots(doc, path=()):
    """Yield (pointer tuple, kind) with kind in {"value", "key"}."""
    if isinstance(doc, dict):
        parent = path[-1] if path else None
        for k, v in doc.items():
            if parent in NAME_MAPS and not (parent == "paths" and False):
                if not (parent == "responses"):
                    yield path + (k,), "key"
            if isinstance(v, str):
                if k in STRUCTURAL_KEYS:
                    continue
                yield path + (k,), "value"
            else:
                yield from walk_slots(v, path + (k,))
    elif isinstance(doc, list):
        parent = path[-1] if path else None
        for i, v in enumerate(doc):
            if isinstance(v, str):
                if parent == "required":
                    continue
                yield path + (i,), "value"
            else:
                yield from walk_slots(v, path + (i,))


def slot_pattern(ptr, kind) -> str:
    out = []
    prev = None
    for i, p in enumerate(ptr):
        last = i == len(ptr) - 1
        if isinstance(p, int):
            out[-1] = out[-1] + "[]"
        elif prev in NAME_MAPS or prev in ("responses",) or (prev == "paths"):
            out.append("<key>" if (last and kind == "key") else "*")
        elif prev is not None and isinstance(prev, str) and prev.startswith("/") is False and i >= 2 and ptr[i - 2] == "paths":
            out.append("*")   # http method
        else:
            out.append(str(p))
        prev = p
    return ".".join(out)


ALL_SLOTS = [(ptr, kind) for ptr, kind in walk_slots(CARRIER)]


def _get(doc, ptr):
    for p in ptr:
        doc = doc[p]
    return doc


def _rename_key(d: dict, old, new):
    items = [(new if k == old else k, v) for k, v in d.items()]
    d.clear()
    d.update(items)


def embed(doc, ptr, kind, text) -> tuple[str, str]:
    """Put the payload text into the slot. Returns (original text, text as it now stands in the document)."""
    parent = _get(doc, ptr[:-1])
    last = ptr[-1]
    if kind == "value":
        orig = parent[last]
        new = text
        if len(ptr) >= 2 and ptr[-2] == "info" and last == "version":
            new = orig + "-" + text
        parent[last] = new
        # operation tags must keep naming a declared tag only by convention; nothing else refers to free text
        return orig, new
    # key slots
    orig = last
    container = ptr[-2]
    if container == "paths":
        new = orig + "/" + text
    elif container == "content":
        if orig.startswith("application/json") or orig.endswith("+json"):
            new = "application/" + text + "+json"
        else:
            new = orig + "; v=" + text
    else:
        new = text
    _rename_key(parent, orig, new)
    if container == "schemas" and len(ptr) == 3:
        _rewrite_refs(doc, "#/components/schemas/" + orig, "#/components/schemas/" + new)
    if container == "properties":
        owner = _get(doc, ptr[:-2])
        if isinstance(owner.get("required"), list):
            owner["required"] = [new if r == orig else r for r in owner["required"]]
    return orig, new


def _rewrite_refs(doc, old, new):
    if isinstance(doc, dict):
        for k, v in doc.items():
            if k == "$ref" and v == old:
                doc[k] = new
            else:
                _rewrite_refs(v, old, new)
    elif isinstance(doc, list):
        for v in doc:
            _rewrite_refs(v, old, new)


def sweep(tier):
    out = []
    for i, (ptr, kind) in enumerate(ALL_SLOTS):
        for cls in PAYLOADS:
            out.append({"slots": [[i, cls]], "meta": "setup", "cfg": {}})
    # free-text sinks once more under docstrings_on_attributes (another docstring site) and without metadata
    for i, (ptr, kind) in enumerate(ALL_SLOTS):
        pat = slot_pattern(ptr, kind)
        if kind == "value" and any(pat.endswith(sfx) for sfx in ("description", "title", "summary", "example", "example.name")):
            for cls in PAYLOADS:
                out.append({"slots": [[i, cls]], "meta": "none", "cfg": {"docstrings_on_attributes": True}})
    if tier == "thorough":
        for i, (ptr, kind) in enumerate(ALL_SLOTS):
            for cls in PAYLOADS:
                for meta, cfg in (("poetry", {"literal_enums": True}), ("pdm", {"docstrings_on_attributes": True}),
                                  ("none", {"literal_enums": True, "docstrings_on_attributes": True})):
                    out.append({"slots": [[i, cls]], "meta": meta, "cfg": cfg})
    return out


@st.composite
def combos(draw):
    n = draw(st.integers(2, 8))
    idx = draw(st.lists(st.integers(0, len(ALL_SLOTS) - 1), min_size=n, max_size=n, unique=True))
    slots = [[i, draw(st.sampled_from(sorted(PAYLOADS)))] for i in idx]
    return {"slots": slots, "meta": draw(st.sampled_from(["none", "poetry", "pdm", "setup"])),
            "cfg": {"literal_enums": draw(st.booleans()), "docstrings_on_attributes": draw(st.booleans())}}


def strategy(tier):
    return combos()


# ------------------------------------------------------------------------------------------------ oracle

def string_constants(tree) -> list[str]:
    out = []
    for node in ast.walk(tree):
        if isinstance(node, ast.Constant) and isinstance(node.value, str):
            out.append(node.value)
        elif isinstance(node, ast.JoinedStr):
            out.append("".join(v.value for v in node.values if isinstance(v, ast.Constant) and isinstance(v.value, str)))
    return out


def code_identifiers(tree):
    for node in ast.walk(tree):
        if isinstance(node, ast.Name):
            yield node.id
        elif isinstance(node, ast.Attribute):
            yield node.attr
        elif isinstance(node, (ast.FunctionDef, ast.AsyncFunctionDef, ast.ClassDef)):
            yield node.name
        elif isinstance(node, ast.arg):
            yield node.arg
        elif isinstance(node, ast.keyword) and node.arg:
            yield node.arg
        elif isinstance(node, ast.alias):
            yield node.name
            if node.asname:
                yield node.asname


# sinks that the listed findings KF-C05-01..06 already identify as escaping incompletely (used only to scope KF-C05-07)
UNSAFE_SINKS = {
    "components.schemas.*.description", "components.schemas.*.properties.*.description", "components.schemas.*.example.name",
    "components.schemas.*.properties.*.example", "paths.*.post.parameters[].schema.description",
    "components.schemas.*.properties.<key>", "components.schemas.*.properties.*.properties.<key>",
    "paths.*.post.requestBody.content.*.schema.properties.<key>", "paths.*.post.parameters[].name", "components.schemas.*.enum[]",
    "components.schemas.*.properties.*.enum[]", "paths.*.post.parameters[].schema.enum[]", "info.title",
    "components.schemas.*.properties.*.const", "components.schemas.*.properties.*.default",
    "components.schemas.*.properties.*.properties.*.default", "paths.*.post.parameters[].schema.default", "info.version", "paths.<key>",
    "paths.*.post.requestBody.content.<key>",
}


def needs_fidelity(pattern: str) -> bool:
    if ".responses." in pattern:
        return False   # response media types are matched by the parser only; generated code neither sends nor compares them
    return any(pattern.endswith(sfx) or sfx in pattern for sfx in
               ("properties.<key>", "parameters[].name", ".enum[]", ".const", ".default", "paths.<key>", "content.<key>"))


def _strip_placeholders(s: str) -> str:
    return re.sub(r"{[^{}]*}", "{}", s)


def run(case, ctx):
    _run(case, ctx)
    if len(case["slots"]) > 1 and ctx.violations:
        # attribute a multi-slot failure: every slot alone (1-minimal); only a failure no single slot shows is a combination failure
        from ..core import Ctx

        combo = list(ctx.violations)
        singles = []
        for sc in case["slots"]:
            sub = Ctx(tier=ctx.tier, replay=ctx.replay)
            _run({"slots": [sc], "meta": case.get("meta", "none"), "cfg": case.get("cfg") or {}}, sub)
            ctx.evals()
            singles.extend(sub.violations)
        if singles:
            ctx.violations[:] = singles
        else:
            # 1-minimal subset that still fails, then: do all its members sit at sinks already known to escape incompletely?
            subset = list(case["slots"])
            changed = True
            while changed and len(subset) > 2:
                changed = False
                for k in range(len(subset)):
                    trial = subset[:k] + subset[k + 1:]
                    sub = Ctx(tier=ctx.tier, replay=ctx.replay)
                    _run({"slots": trial, "meta": case.get("meta", "none"), "cfg": case.get("cfg") or {}}, sub)
                    ctx.evals()
                    if sub.violations:
                        subset = trial
                        combo = list(sub.violations)
                        changed = True
                        break
            pats = sorted({slot_pattern(*ALL_SLOTS[i]) for i, _ in subset if isinstance(i, int)})
            known = all(p in UNSAFE_SINKS for p in pats)
            for v in combo:
                v["site"] = {"slot": "combination", "kind": v["site"].get("kind"), "all_members_at_known_unsafe_sinks": known}
                v["detail"] = f"minimal failing slot set {[(slot_pattern(*ALL_SLOTS[i]), c) for i, c in subset if isinstance(i, int)]}: " + v["detail"]
            ctx.violations[:] = combo
            ctx.label("combination_only_failure")


def _run(case, ctx):
    doc = copy.deepcopy(CARRIER)
    applied = []
    # apply deeper/later pointers first so that earlier renames do not invalidate pointers: sort by pointer depth descending
    resolved = []
    for spec, cls in case["slots"]:
        if isinstance(spec, list):   # a slot given by its pointer (robust against edits of the carrier)
            want = tuple(spec[0]) if spec and isinstance(spec[0], list) else tuple(spec)
            kindw = spec[1] if spec and isinstance(spec[0], list) else None
            hit = [j for j, (pp, kk) in enumerate(ALL_SLOTS) if pp == want and (kindw is None or kk == kindw)]
            if not hit:
                continue
            spec = hit[0]
        if 0 <= spec < len(ALL_SLOTS):
            resolved.append((spec, cls))
    chosen = sorted(resolved, key=lambda sc: (-len(ALL_SLOTS[sc[0]][0]), sc[0]))
    for i, cls in chosen:
        ptr, kind = ALL_SLOTS[i]
        try:
            orig, new = embed(doc, ptr, kind, payload_text(cls, i))
        except (KeyError, IndexError, TypeError):
            continue   # an enclosing key was renamed by another slot of this case
        applied.append({"pattern": slot_pattern(ptr, kind), "class": cls, "text": new, "kind": kind})
    if not applied:
        ctx.skip("no_slot_applied")
        return
    res = sut.generate(doc, cfg=case.get("cfg") or {}, meta=case.get("meta", "none"))
    single = applied[0] if len(applied) == 1 else None
    base_site = {"slot": single["pattern"], "class": single["class"]} if single else {"slot": "several", "class": "several"}
    try:
        if res.exc is not None:
            ctx.skip("generator_crashed")   # C06
            ctx.label("crash:" + res.exc_site["exc"])
            return
        if not res.accepted:
            ctx.label("rejected_whole_document")
            ctx.skip("rejected")
            return
        ctx.nontrivial([case["slots"], case.get("meta"), case.get("cfg")])
        ctx.sample = {"slots": [[a["pattern"], a["class"]] for a in applied], "meta": case.get("meta"), "cfg": case.get("cfg")}
        ctx.label("meta:" + case.get("meta", "none"))
        all_consts: list[str] = []
        failed = False
        for f in pyast.py_files(res.out):
            rel = os.path.relpath(f, res.out)
            with open(f, "rb") as fh:
                src = fh.read()
            try:
                tree = ast.parse(src, filename=f)
                compile(src, f, "exec", dont_inherit=True)
            except (SyntaxError, ValueError) as e:
                failed = True
                ctx.violation("code.syntax", {**base_site, "kind": "syntax", "module": pyast.module_kind(rel)}, f"{rel}: {e}"[:300])
                continue
            for ident in code_identifiers(tree):
                if ident == CALL:
                    failed = True
                    ctx.violation("code.canary_is_code", {**base_site, "kind": "code", "module": pyast.module_kind(rel)}, f"{rel}: {CALL} occurs as code")
                    break
            try:
                for tok in tokenize.tokenize(io.BytesIO(src).readline):
                    if tok.type == tokenize.COMMENT and (CALL in tok.string or CA in tok.string or CB in tok.string):
                        failed = True
                        ctx.violation("code.canary_in_comment", {**base_site, "kind": "comment", "module": pyast.module_kind(rel)}, f"{rel}: {tok.string[:100]}")
                        break
            except (tokenize.TokenError, SyntaxError, IndentationError):
                pass
            all_consts.extend(string_constants(tree))
        # metadata files
        meta = case.get("meta", "none")
        if meta != "none":
            pp = os.path.join(res.out, "pyproject.toml")
            try:
                with open(pp, "rb") as fh:
                    data = tomllib.load(fh)
                proj = data.get("project") or data.get("tool", {}).get("poetry") or {}
                if meta in ("poetry", "pdm"):
                    want_version = doc["info"]["version"]
                    if proj.get("version") != want_version:
                        ctx.violation("toml.values", {**base_site, "kind": "fidelity", "field": "version"}, f"{proj.get('version')!r} vs {want_version!r}")
                    want_desc = f"A client library for accessing {doc['info']['title']}"
                    if proj.get("description") != want_desc:
                        ctx.violation("toml.values", {**base_site, "kind": "fidelity", "field": "description"}, f"{proj.get('description')!r} vs {want_desc!r}")
            except tomllib.TOMLDecodeError as e:
                ctx.violation("toml.parses", {**base_site, "kind": "toml"}, str(e)[:200])
            except OSError:
                ctx.violation("toml.parses", {**base_site, "kind": "toml", "why": "missing"}, "pyproject.toml missing")
        # fidelity of run-time meaningful text
        diag = res.diag_text()
        if not failed:
            norm_consts = None
            for a in applied:
                if not needs_fidelity(a["pattern"]):
                    continue
                text = a["text"]
                if text in all_consts:
                    continue
                if a["pattern"].endswith("paths.<key>"):
                    if norm_consts is None:
                        norm_consts = {_strip_placeholders(c) for c in all_consts}
                    if _strip_placeholders(text) in norm_consts:
                        continue
                # rejected with a diagnostic and absent?
                canary_present = any((CA in c) for c in all_consts)
                if diag and not any(text[2:10] in c for c in all_consts if (CA in c or CB in c)):
                    ctx.label("piece_rejected_with_diagnostic")
                    continue
                near = [c for c in all_consts if (CA in c or CB in c)][:2]
                ctx.violation("fidelity.reproduced_exactly", {"slot": a["pattern"], "class": a["class"], "kind": "fidelity"},
                              f"{text!r} not found as a string constant; nearest: {near!r}"[:400])
    finally:
        env.rm(os.path.dirname(res.out))
