"""C06 - every failure is a diagnostic: the generator never crashes or hangs; exit status and output agree."""
from __future__ import annotations

import copy
import json
import os
import subprocess
import sys

from hypothesis import strategies as st

from .. import env, sut
from ..gen import docs

ID = "C06"
BUDGET = {"quick": 1600, "thorough": 40000}
CASE_TIMEOUT = float(os.environ.get("VERIF_C06_TIMEOUT", "45"))
ATHERIS_CASE_TIMEOUT = 3500
SHRINK_BUDGET = 150
RULE = ("cases: (a) byte strings as .json/.yaml/.yml files, (b) arbitrary JSON values as the whole document, "
        "(c) valid generated documents with 1-4 junk mutations (replace/delete/duplicate a node at any depth; junk = "
        "wrong types, null, empty, dangling/remote/self/wrong-section/non-string $ref, contradictory keyword sets, "
        "non-finite numbers), (d) deliberately cyclic documents, (e) 327 documents in which two constructs of every pair of kinds "
        "(component object/enum/array/allOf child/union/alias, inline property, inline parameter enum, inline response, inline body, "
        "two operations sharing an operationId) derive the same class name, in both orders, (f) a complete sweep of 32 stress "
        "strings (long repetitive runs with missing terminators: unclosed braces, slashes, dots, underscores, case alternations, "
        "pointer escapes, media-type parameters, 4000 characters) x every string leaf and every name-carrying key (81 slots) of a "
        "carrier document - what makes a backtracking pattern or a character loop run away, (g) a complete value matrix (2 820 "
        "documents): the keywords whose value the document validator leaves untyped (default, example, enum members, const) x 22 "
        "schema kinds x 20 junk values of every JSON type x position (model property, component, query parameter), (h) 76 one-problem "
        "documents (8 operation-level and 14 schema-level problems; the broken operation alone / under one or two tags / next to a healthy "
        "operation of another tag; the broken schema used or unused): the problem must come back as a diagnostic and as exit status 1 under "
        "--fail-on-warning, (i) 13 command lines (both / no source, unknown encoding, unreadable or ill-typed configuration, missing path, "
        "directory as path, refused / malformed URL, YAML configuration, unknown metadata flavour): exit status, "
        "no traceback, nothing written, (k) 9 inputs nested beyond the recursion limit (JSON / YAML, 1 500-100 000 levels), each run through "
        "the command line in a fresh interpreter: the process must survive and exit 1. Non-trivial = input parsed to a mapping holding "
        "openapi+info+paths and either produced >=1 diagnostic or reached rendering; distinct = hash of the input.")
ASSUMPTIONS = [
    "post-hooks are disabled, so an ERROR-level diagnostic always means the document itself was rejected",
    "CLI is driven in-process through typer's CliRunner; a subprocess is used only to confirm suspected hangs",
    "a hang is only reported after the case exceeds 45 s in-process and then 100 s alone in a fresh interpreter",
    "YAML alias bombs are not generated (they endanger the harness); alias nesting is at most what 300 random bytes allow",
]

REF_JUNK = [
    {"$ref": "#/components/schemas/Nope"}, {"$ref": "other.yaml#/components/schemas/Alpha"},
    {"$ref": "http://example.invalid/x.json#/components/schemas/Alpha"}, {"$ref": "#/components/parameters/Alpha"},
    {"$ref": "#/components/schemas/Alpha"}, {"$ref": "#/components/schemas/Bravo"}, {"$ref": 5}, {"$ref": ""},
    {"$ref": "#/"}, {"$ref": "#/components/schemas/Alpha/properties/x"}, {"$ref": "#/components/requestBodies/Nope"},
    {"$ref": "#/components/responses/Nope"}, {"$ref": "#/paths/~1items"}, {"$ref": "#/components/schemas/%41lpha"},
]
SCHEMA_JUNK = [
    {"type": "string", "items": {}}, {"enum": []}, {"type": "object", "required": ["nope"]},
    {"allOf": [{"type": "string"}]}, {"type": "integer", "default": "x"}, {"type": "array"},
    {"type": ["string", "integer"], "enum": [1, "a"]}, {"oneOf": []}, {"type": "nope"}, {"type": "integer", "default": 1e308},
    {"type": "number", "default": "nan"}, {"type": "string", "format": "date", "default": "yesterday"},
    {"type": "string", "enum": ["a", "b"], "default": "c"}, {"const": "x", "default": "y"}, {"enum": [None]},
    {"type": "array", "items": {"$ref": "#/components/schemas/Nope"}}, {"allOf": [{"$ref": "#/components/schemas/Alpha"},
                                                                                   {"$ref": "#/components/schemas/Bravo"}]},
    {"type": "object", "properties": {"a": {"type": "array"}}}, {"type": "object", "additionalProperties": {"type": "nope"}},
    {"anyOf": [{"type": "string"}, {"$ref": "#/components/schemas/Nope"}]}, {"type": "string", "enum": ["a", 1]},
    {"type": "boolean", "enum": [True]}, {"type": "number", "enum": [1.5]}, {"not": {}}, {"type": "null"},
    {"type": "integer", "enum": [1, 1]}, {"type": "string", "enum": ["x y", "x_y"]}, {"type": "string", "format": "uuid", "default": 3},
    {"type": "array", "prefixItems": [{"type": "string"}, {"$ref": "#/components/schemas/Nope"}]},
    {"type": "integer", "default": float("inf")}, {"type": "number", "default": float("nan")}, {"type": "integer", "default": "1e999"},
]
VALUE_JUNK = [None, True, False, 0, -1, 1e308, "", "x", [], {}, [[]], [None], {"a": None}, "3.0.3", "2.0", 3, "default", "2XX",
              "600", "get", "query", "body", "application/json", "text/plain", "multipart/form-data", "*/*", "a/b;c=d", "{x}",
              "/a/{b}/{b}", ["a", "a"], {"200": None}, float("inf")]


def walk(doc, path=()):
    yield path
    if isinstance(doc, dict):
        for k, v in doc.items():
            yield from walk(v, path + (k,))
    elif isinstance(doc, list):
        for i, v in enumerate(doc):
            yield from walk(v, path + (i,))


def _get(doc, path):
    for p in path:
        doc = doc[p]
    return doc


def schema_positions(doc):
    """Pointers to nodes that stand where a Schema Object is expected."""
    out = []
    for p in walk(doc):
        if not p:
            continue
        last, prev = p[-1], (p[-2] if len(p) > 1 else None)
        if last in ("schema", "items", "additionalProperties", "not") or prev in ("schemas", "properties", "allOf", "anyOf", "oneOf", "prefixItems"):
            if isinstance(_get(doc, p), dict):
                out.append(p)
    return out


def mutate(doc, sel: int, op: str, junk, at_schema: bool = False):
    paths = schema_positions(doc) if at_schema else []
    if not paths:
        paths = [p for p in walk(doc) if p]
    if not paths:
        return junk
    path = paths[sel % len(paths)]
    parent = _get(doc, path[:-1])
    last = path[-1]
    if op == "replace":
        parent[last] = copy.deepcopy(junk)
    elif op == "merge" and isinstance(parent[last], dict) and isinstance(junk, dict):
        parent[last] = {**parent[last], **copy.deepcopy(junk)}
    elif op == "delete":
        del parent[last]
    elif op == "dup":
        if isinstance(parent, list):
            parent.insert(last, copy.deepcopy(parent[last]))
        else:
            parent[str(last) + "2"] = copy.deepcopy(parent[last])
    elif op == "wrap":
        parent[last] = {"allOf": [copy.deepcopy(parent[last])]} if isinstance(parent[last], dict) else [parent[last]]
    elif op == "rename" and isinstance(parent, dict):
        parent[str(junk) if isinstance(junk, (str, int)) and not isinstance(junk, bool) else "x"] = parent.pop(last)
    return doc


JUNK = st.one_of(st.sampled_from(VALUE_JUNK), st.sampled_from(SCHEMA_JUNK), st.sampled_from(REF_JUNK))

PROF = docs.profile(max_schemas=3, max_props=3, max_ops=2, defaults=False, multipart_const=True, optional_const_bool=True,
                    header_uuid=True, cookie_nonstring=True, date_datetime_union=True, two_array_union=True)
SJUNK = st.one_of(st.sampled_from(SCHEMA_JUNK), st.sampled_from(REF_JUNK))


@st.composite
def mutated_doc(draw):
    ir = draw(docs.doc_ir(PROF))
    doc = docs.render(ir)
    n = draw(st.integers(1, 4))
    for _ in range(n):
        if draw(st.integers(0, 9)) < 7:
            doc = mutate(doc, draw(st.integers(0, 10**6)), draw(st.sampled_from(["replace", "replace", "merge", "merge", "wrap", "dup"])),
                         draw(SJUNK), at_schema=True)
        else:
            doc = mutate(doc, draw(st.integers(0, 10**6)),
                         draw(st.sampled_from(["replace", "replace", "replace", "delete", "dup", "wrap", "rename"])), draw(JUNK))
    return {"kind": "doc", "doc": doc, "yaml": draw(st.integers(0, 3)) == 0, "cli": draw(st.integers(0, 2)) == 0,
            "fow": draw(st.booleans()), "meta": draw(st.sampled_from(["none", "none", "poetry", "setup", "pdm"]))}


KEYS = ["openapi", "info", "title", "version", "paths", "components", "schemas", "type", "properties", "$ref", "get", "post",
        "responses", "200", "content", "application/json", "schema", "parameters", "name", "in", "enum", "items", "allOf",
        "oneOf", "anyOf", "default", "required", "requestBody", "swagger", "nullable", "const", "format", "description",
        "additionalProperties", "operationId", "tags", "security", "requestBodies"]
leaf = st.one_of(st.none(), st.booleans(), st.integers(-3, 700), st.sampled_from(["3.0.3", "3.1.0", "object", "string", "array",
                 "integer", "query", "path", "x", "", "#/components/schemas/A", "#/components/schemas/B", "t", "1"]),
                 st.floats(allow_nan=True, allow_infinity=True))
json_any = st.recursive(leaf, lambda ch: st.one_of(st.lists(ch, max_size=3), st.dictionaries(st.sampled_from(KEYS), ch, max_size=5)),
                        max_leaves=25)


@st.composite
def json_value_doc(draw):
    v = draw(json_any)
    if isinstance(v, dict) and draw(st.booleans()):
        v.setdefault("openapi", "3.0.3")
        v.setdefault("info", {"title": "t", "version": "1"})
        v.setdefault("paths", {})
    return {"kind": "doc", "doc": v, "yaml": draw(st.integers(0, 3)) == 0, "cli": draw(st.integers(0, 2)) == 0,
            "fow": draw(st.booleans()), "meta": "none"}


TOKENS = [b"{", b"}", b"[", b"]", b":", b",", b'"', b"openapi", b"3.0.3", b"info", b"paths", b"title", b"version", b"\n", b" ",
          b"- ", b"&a ", b"*a", b"!!python/object", b"%YAML", b"---", b"...", b"null", b"true", b"1e999", b"\t", b"\xff", b"\x00",
          b"\xef\xbb\xbf", b"#", b"|", b">", b"? ", b"<<: ", b"'", b"\\", b"components", b"schemas", b"$ref", b"type", b"object",
          b"NaN", b"Infinity", b"-", b"0", b".inf", b"~", b"{}", b"[]", b'{"openapi":"3.0.3","info":{"title":"t","version":"1"},"paths":{}}',
          b"openapi: 3.0.3\ninfo: {title: t, version: '1'}\npaths: {}\n"]


@st.composite
def bytes_doc(draw):
    parts = draw(st.lists(st.one_of(st.sampled_from(TOKENS), st.binary(max_size=6)), max_size=30))
    data = b"".join(parts)
    return {"kind": "bytes", "data": data.decode("latin-1"), "suffix": draw(st.sampled_from([".json", ".yaml", ".yml", ".txt", ""])),
            "cli": draw(st.integers(0, 2)) == 0, "fow": draw(st.booleans()), "meta": "none"}


def cyclic_docs():
    R = lambda n: {"$ref": "#/components/schemas/" + n}  # noqa: E731
    base = lambda schemas, extra=None, paths=None: {"openapi": "3.0.3", "info": {"title": "t", "version": "1"},  # noqa: E731
                                                    "paths": paths or {}, "components": {"schemas": schemas, **(extra or {})}}
    op = lambda o: {"/x": {"post": {**o, "responses": {"200": {"description": "d"}}}}}  # noqa: E731
    out = [
        base({"A": R("A")}), base({"A": R("B"), "B": R("A")}),
        base({"A": {"allOf": [R("A")]}}), base({"A": {"allOf": [R("B")]}, "B": {"allOf": [R("A")]}}),
        base({"A": {"allOf": [R("A"), {"type": "object"}]}}),
        base({"A": {"allOf": [R("B"), {"type": "object"}]}, "B": {"allOf": [R("A"), {"type": "object"}]}}),
        base({"A": {"type": "array", "items": R("A")}}), base({"A": {"type": "array", "items": R("B")}, "B": {"type": "array", "items": R("A")}}),
        base({"A": {"oneOf": [R("A"), {"type": "string"}]}}), base({"A": {"anyOf": [R("B")]}, "B": {"anyOf": [R("A")]}}),
        base({"A": {"type": "object", "properties": {"a": R("A")}, "required": ["a"]}}),
        base({"A": {"type": "object", "additionalProperties": R("A")}}),
        base({"A": {"type": "object", "properties": {"a": {"type": "array", "items": {"allOf": [R("A")]}}}}}),
        base({}, {"requestBodies": {"B": {"$ref": "#/components/requestBodies/B"}}}, op({"requestBody": {"$ref": "#/components/requestBodies/B"}})),
        base({}, {"requestBodies": {"B": {"$ref": "#/components/requestBodies/C"}, "C": {"$ref": "#/components/requestBodies/B"}}},
             op({"requestBody": {"$ref": "#/components/requestBodies/B"}})),
        base({}, {"parameters": {"P": {"$ref": "#/components/parameters/P"}}}, op({"parameters": [{"$ref": "#/components/parameters/P"}]})),
        base({}, {"parameters": {"P": {"$ref": "#/components/parameters/Q"}, "Q": {"$ref": "#/components/parameters/P"}}},
             op({"parameters": [{"$ref": "#/components/parameters/P"}]})),
        base({}, {"responses": {"R": {"$ref": "#/components/responses/R"}}}, {"/x": {"get": {"responses": {"200": {"$ref": "#/components/responses/R"}}}}}),
        base({}, {"responses": {"R": {"$ref": "#/components/responses/S"}, "S": {"$ref": "#/components/responses/R"}}},
             {"/x": {"get": {"responses": {"200": {"$ref": "#/components/responses/R"}}}}}),
        base({"A": {"type": "object", "properties": {"a": {"oneOf": [R("A"), R("B")]}}}, "B": {"allOf": [R("A"), {"type": "object", "properties": {"b": R("B")}}]}}),
    ]
    cases = [{"kind": "doc", "doc": d, "yaml": False, "cli": True, "fow": False, "meta": "none"} for d in out]
    yamls = [
        b"a: &a [*a]\n", b"openapi: 3.0.3\ninfo: &i {title: t, version: '1', x: *i}\npaths: {}\n",
        b"openapi: 3.0.3\ninfo: {title: t, version: '1'}\npaths: {}\ncomponents:\n  schemas:\n    A: &A\n      type: object\n      properties:\n        a: *A\n",
        b"&a {openapi: 3.0.3, info: {title: t, version: '1'}, paths: {}, x: *a}\n",
    ]
    cases += [{"kind": "bytes", "data": y.decode("latin-1"), "suffix": ".yaml", "cli": True, "fow": False, "meta": "none"} for y in yamls]
    return cases


# ------------------------------------------------------------------------------------------------ stress strings
# long, repetitive strings with missing terminators: what makes a backtracking pattern or a character loop run away
STRESS = [
    "{" + "a" * 48, "a" * 48 + "}", "/{" + "a_" * 24, "{" + "a-" * 24 + "+}", "{" + "a" * 40 + ":x}", "{" * 48, "}" * 48, "{a}" * 24,
    "/" * 64, "a/" * 32, "_" * 64, "-" * 64, " " * 64 + "x", "a." * 32, "A" * 64, "aB" * 32, "9" * 64, "#/" * 32,
    "#/components/schemas/" + "a/" * 32, "~1" * 32, "%41" * 24, "application/" + "a+" * 32 + "json", "a;" * 32,
    "a/b;" + "c=d;" * 24, "\\" * 48, "$" * 48, "\u00e9" * 48, "\u00df" * 40, "\u0130" * 40, "a b " * 24, "1.2." * 24, "x" * 4000,
    # short texts that a library below the generator refuses: a lone surrogate (cannot be encoded when files are written), reference
    # texts urlparse rejects
    "\ud800", "a\udfffb", "//[", "http://[::1", "#/components/schemas/[",
]
KEY_SLOT_PARENTS = ("paths", "schemas", "properties", "content", "responses", "parameters", "requestBodies", "securitySchemes")


def stress_carrier():
    R = "#/components/schemas/"
    return {"openapi": "3.0.3", "info": {"title": "Stress API", "version": "1.0", "description": "d"},
            "servers": [{"url": "https://example.invalid/v1"}],
            "paths": {"/pets/{petId}/toys": {
                "parameters": [{"name": "petId", "in": "path", "required": True, "schema": {"type": "string"}}],
                "get": {"operationId": "listToys", "tags": ["toys"], "summary": "s", "description": "d",
                        "parameters": [{"name": "kind", "in": "query", "schema": {"type": "string", "enum": ["soft", "hard"], "default": "soft"}},
                                       {"name": "X-Trace", "in": "header", "schema": {"type": "string", "pattern": "^a+$"}},
                                       {"$ref": "#/components/parameters/Limit"}],
                        "responses": {"200": {"description": "ok", "content": {"application/json": {"schema": {"type": "array", "items": {"$ref": R + "Toy"}}}}},
                                      "404": {"$ref": "#/components/responses/Missing"}}},
                "post": {"operationId": "addToy", "tags": ["toys"],
                         "requestBody": {"content": {"application/json": {"schema": {"$ref": R + "Toy"}},
                                                     "multipart/form-data": {"schema": {"type": "object", "properties": {"file": {"type": "string", "format": "binary"}}}}}},
                         "responses": {"201": {"description": "made", "content": {"text/plain": {"schema": {"type": "string"}}}}},
                         "security": [{"key": []}]}}},
            "components": {"schemas": {"Toy": {"type": "object", "title": "Toy", "description": "a toy", "required": ["name"],
                                               "properties": {"name": {"type": "string", "default": "bear", "example": "bear"},
                                                              "made": {"type": "string", "format": "date-time"},
                                                              "size": {"$ref": R + "Size"},
                                                              "owner": {"allOf": [{"$ref": R + "Owner"}]}}},
                                       "Size": {"type": "string", "enum": ["s", "m"]},
                                       "Owner": {"type": "object", "properties": {"nick": {"type": "string"}}, "additionalProperties": {"type": "string"}}},
                           "parameters": {"Limit": {"name": "limit", "in": "query", "schema": {"type": "integer", "default": 10}}},
                           "responses": {"Missing": {"description": "none", "content": {"application/json": {"schema": {"$ref": R + "Owner"}}}}},
                           "securitySchemes": {"key": {"type": "apiKey", "in": "header", "name": "X-Key"}}}}


def stress_slots(doc):
    """Every string leaf and every key of the name-carrying mappings, as (path, is_key)."""
    out = []
    for path in walk(doc):
        if not path:
            continue
        v = _get(doc, path)
        if isinstance(v, str):
            out.append((list(path), False))
        if len(path) >= 2 and path[-2] in KEY_SLOT_PARENTS and isinstance(path[-1], str):
            out.append((list(path), True))
    return out


def stress_cases():
    carrier = stress_carrier()
    slots = stress_slots(carrier)
    return [{"kind": "stress", "slot": i, "string": j} for i in range(len(slots)) for j in range(len(STRESS))]


def _stress_doc(case):
    doc = stress_carrier()
    path, is_key = stress_slots(doc)[case["slot"]]
    text = STRESS[case["string"]]
    parent = _get(doc, path[:-1])
    if is_key:
        parent[text] = parent.pop(path[-1])
    else:
        parent[path[-1]] = text
    return doc


# ------------------------------------------------------------------------------------------------ class-name collisions
def collision_docs():
    """Two constructs of every pair of kinds whose derived class names coincide, in both document orders."""
    R = "#/components/schemas/"
    obj = lambda: {"type": "object", "properties": {"a": {"type": "string"}}}  # noqa: E731
    comp_kinds = {
        "object": obj, "str_enum": lambda: {"type": "string", "enum": ["a", "b"]}, "int_enum": lambda: {"type": "integer", "enum": [1, 2]},
        "array_inline_object": lambda: {"type": "array", "items": obj()},
        "allof_child": lambda: {"allOf": [{"$ref": R + "Base"}, {"type": "object", "properties": {"c": {"type": "string"}}}]},
        "union_inline_objects": lambda: {"oneOf": [obj(), {"type": "object", "properties": {"b": {"type": "integer"}}}]},
        "string_alias": lambda: {"type": "string"},
    }
    inline_kinds = {
        "object": obj, "str_enum": lambda: {"type": "string", "enum": ["x", "y"]}, "int_enum": lambda: {"type": "integer", "enum": [7, 8]},
        "array_enum": lambda: {"type": "array", "items": {"type": "string", "enum": ["x", "y"]}},
        "union_inline_objects": lambda: {"oneOf": [obj(), {"type": "object", "properties": {"b": {"type": "integer"}}}]},
    }
    base = {"Base": obj()}
    ok = {"200": {"description": "ok"}}
    out = []

    def doc(schemas, paths=None):
        return {"openapi": "3.0.3", "info": {"title": "t", "version": "1"}, "paths": paths or {}, "components": {"schemas": schemas}}

    def both_orders(a: dict, b: dict, paths=None, tag=""):
        out.append((tag + ":ab", doc({**base, **a, **b}, paths)))
        out.append((tag + ":ba", doc({**base, **b, **a}, paths)))

    for k1, f1 in comp_kinds.items():
        for k2, f2 in comp_kinds.items():
            both_orders({"PetStatus": f1()}, {"pet_status": f2()}, tag=f"comp/{k1}+comp/{k2}")
        for k2, f2 in inline_kinds.items():
            for spelled in ("PetStatus", "pet_status"):
                both_orders({spelled: f1()}, {"Pet": {"type": "object", "properties": {"status": f2()}}}, tag=f"comp/{k1}+inlineprop/{k2}")
        for k2 in ("str_enum", "int_enum"):
            p = {"/pets": {"get": {"operationId": "pet", "parameters": [{"name": "status", "in": "query", "schema": inline_kinds[k2]()}], "responses": ok}}}
            for spelled in ("PetStatus", "pet_status"):
                out.append((f"comp/{k1}+param/{k2}", doc({**base, spelled: f1()}, p)))
        for k2 in ("object", "str_enum", "array_enum", "union_inline_objects"):
            p = {"/pets": {"get": {"operationId": "pet", "responses": {"200": {"description": "ok", "content": {"application/json": {"schema": inline_kinds[k2]()}}}}}}}
            out.append((f"comp/{k1}+response/{k2}", doc({**base, "PetResponse200": f1()}, p)))
        for k2 in ("object", "str_enum"):
            p = {"/pets": {"post": {"operationId": "pet", "requestBody": {"content": {"application/json": {"schema": inline_kinds[k2]()}}}, "responses": ok}}}
            out.append((f"comp/{k1}+body/{k2}", doc({**base, "PetBody": f1(), "PetJsonBody": f1()}, p)))
    for k1, f1 in inline_kinds.items():
        for k2 in ("str_enum", "int_enum"):
            p = {"/pets": {"get": {"operationId": "pet", "parameters": [{"name": "status", "in": "query", "schema": inline_kinds[k2]()}], "responses": ok}}}
            out.append((f"inlineprop/{k1}+param/{k2}", doc({**base, "Pet": {"type": "object", "properties": {"status": f1()}}}, p)))
    # two operations sharing an operationId, each with an inline response of some kind
    for k1 in ("object", "str_enum", "union_inline_objects"):
        for k2 in ("object", "str_enum", "union_inline_objects"):
            r = lambda k: {"200": {"description": "ok", "content": {"application/json": {"schema": inline_kinds[k]()}}}}  # noqa: E731
            p = {"/a": {"get": {"operationId": "pet", "responses": r(k1)}}, "/b": {"get": {"operationId": "pet", "responses": r(k2)}}}
            out.append((f"response/{k1}+response/{k2}", doc(dict(base), p)))
    return [{"kind": "doc", "doc": d, "yaml": False, "cli": False, "fow": False, "meta": "none", "collision": tag} for tag, d in out]


# ------------------------------------------------------------------------------------------------ value matrix
# the keywords whose value the document validator does not type (default, example, enum members, const) x every schema kind x
# junk of every JSON type x three positions: each reaches a conversion routine written for one type only
MATRIX_KINDS = {
    "string": {"type": "string"}, "date": {"type": "string", "format": "date"}, "datetime": {"type": "string", "format": "date-time"},
    "uuid": {"type": "string", "format": "uuid"}, "binary": {"type": "string", "format": "binary"}, "integer": {"type": "integer"},
    "number": {"type": "number"}, "boolean": {"type": "boolean"}, "str_enum": {"type": "string", "enum": ["a", "b"]},
    "int_enum": {"type": "integer", "enum": [1, 2]}, "untyped_enum": {"enum": ["a", "b"]}, "const_str": {"const": "x"}, "const_int": {"const": 1},
    "array": {"type": "array", "items": {"type": "string"}}, "object": {"type": "object", "properties": {"q": {"type": "string"}}},
    "union": {"anyOf": [{"type": "integer"}, {"type": "string"}]}, "typelist": {"type": ["string", "null"]},
    "ref_enum_wrapper": {"allOf": [{"$ref": "#/components/schemas/ZzEnum"}]}, "ref_model_wrapper": {"allOf": [{"$ref": "#/components/schemas/ZzModel"}]},
    "ref_int_wrapper": {"oneOf": [{"$ref": "#/components/schemas/ZzInt"}]}, "any": {}, "null": {"type": "null"},
}
MATRIX_VALUES = [None, True, False, 0, 1, -1, 1.5, 1e308, "", "x", "1", "true", "2020-01-02", [], ["a"], [1], [[]], {}, {"a": 1},
                 {"$ref": "#/components/schemas/ZzModel"}]
MATRIX_POSITIONS = ("property", "component", "parameter")


def matrix_cases():
    out = []
    for k in MATRIX_KINDS:
        for vi in range(len(MATRIX_VALUES)):
            for kw in ("default", "example"):
                for pos in MATRIX_POSITIONS:
                    out.append({"kind": "matrix", "schema": k, "keyword": kw, "value": vi, "pos": pos})
    for vi in range(len(MATRIX_VALUES)):
        for pos in MATRIX_POSITIONS:
            for kw in ("enum_member", "enum_member_typed", "const_value"):
                out.append({"kind": "matrix", "schema": "-", "keyword": kw, "value": vi, "pos": pos})
    return out


def _matrix_doc(case):
    v = copy.deepcopy(MATRIX_VALUES[case["value"]])
    kw = case["keyword"]
    if kw == "enum_member":
        sch = {"enum": ["a", v]}
    elif kw == "enum_member_typed":
        sch = {"type": "string", "enum": ["a", "b", v]}
    elif kw == "const_value":
        sch = {"const": v}
    else:
        sch = {**copy.deepcopy(MATRIX_KINDS[case["schema"]]), kw: v}
    comps = {"ZzEnum": {"type": "string", "enum": ["a", "b"]}, "ZzInt": {"type": "integer"},
             "ZzModel": {"type": "object", "properties": {"m": {"type": "string"}}}}
    paths = {}
    if case["pos"] == "property":
        comps["Holder"] = {"type": "object", "properties": {"p": sch, "keep": {"type": "string"}}}
    elif case["pos"] == "component":
        comps["Target"] = sch
        comps["Holder"] = {"type": "object", "properties": {"p": {"$ref": "#/components/schemas/Target"}}}
    else:
        paths = {"/items": {"get": {"operationId": "listItems", "parameters": [{"name": "p", "in": "query", "schema": sch}],
                                    "responses": {"200": {"description": "ok"}}}}}
    return {"openapi": "3.1.0", "info": {"title": "t", "version": "1"}, "paths": paths, "components": {"schemas": comps}}


ATHERIS_RUNS = int(os.environ.get("VERIF_C06_ATHERIS_RUNS", "40000"))


# ------------------------------------------------------------------------------------------------ (h) catalogue of single problems
def problem_cases():
    """One-problem documents: the problem must come back as a diagnostic (and as exit status 1 with --fail-on-warning), whether
    or not anything else in the document (its tag, its only operation) survives."""
    from . import c08

    out = []
    for fault in c08.OP_FAULTS:
        for tags in ([], ["solo"], ["solo", "duo"]):
            for sibling in (False, True):
                out.append({"kind": "problem", "where": "op", "fault": fault, "tags": tags, "sibling": sibling})
    for fault in sorted(c08.SCHEMA_FAULTS):
        for used in (False, True):
            out.append({"kind": "problem", "where": "schema", "fault": fault, "used": used})
    return out


def _problem_doc(case):
    import copy

    from . import c08

    doc = {"openapi": "3.0.3", "info": {"title": "Problem API", "version": "1"}, "paths": {},
           "components": {"schemas": {"Fine": {"type": "object", "properties": {"a": {"type": "string"}}}}}}
    if case["where"] == "op":
        o = {"operationId": "brokenOp", "responses": {"200": {"description": "ok"}}}
        if case["tags"]:
            o["tags"] = list(case["tags"])
        path = "/broken"
        f = case["fault"]
        if f == "optional_path_param":
            path = "/broken/{zzopt}"
            o["parameters"] = [{"name": "zzopt", "in": "path", "schema": {"type": "string"}}]
        elif f == "duplicate_param":
            o["parameters"] = [{"name": "zzdup", "in": "query", "schema": {"type": "string"}}, {"name": "zzdup", "in": "query", "schema": {"type": "integer"}}]
        elif f == "unparseable_body":
            o["requestBody"] = {"content": {"application/json": {"schema": {"type": "array"}}}}
        elif f == "unsupported_body_only":
            o["requestBody"] = {"content": {"application/xml": {"schema": {"type": "string"}}}}
        elif f == "invalid_status":
            o["responses"]["abc"] = {"description": "bad"}
        elif f == "response_dangling_ref":
            o["responses"]["418"] = {"description": "bad", "content": {"application/json": {"schema": {"$ref": "#/components/schemas/ZzNope"}}}}
        elif f == "param_bad_schema":
            o["parameters"] = [{"name": "zzBadParam", "in": "query", "schema": {"type": "array"}}]
        elif f == "param_dangling_ref":
            o["parameters"] = [{"$ref": "#/components/parameters/ZzNope"}]
        elif f == "header_union_with_array":
            o["parameters"] = [{"name": "X-Zz-Bad", "in": "header", "schema": {"oneOf": [{"type": "array", "items": {"type": "string"}}, {"type": "integer"}]}}]
        elif f == "cookie_array":
            o["parameters"] = [{"name": "zzBadCookie", "in": "cookie", "schema": {"type": "array", "items": {"type": "string"}}}]
        elif f == "param_ref_chain":
            doc["components"]["parameters"] = {"ZzRealParam": {"name": "zzreal", "in": "query", "schema": {"type": "string"}},
                                               "ZzAliasParam": {"$ref": "#/components/parameters/ZzRealParam"}}
            o["parameters"] = [{"$ref": "#/components/parameters/ZzAliasParam"}]
        doc["paths"][path] = {"post": o}
        if case["sibling"]:
            doc["paths"]["/fine"] = {"get": {"operationId": "fineOp", "tags": ["other"], "responses": {"200": {"description": "ok"}}}}
    else:
        doc["components"]["schemas"]["Broken"] = {"type": "object", "properties": {"bad": copy.deepcopy(c08.SCHEMA_FAULTS[case["fault"]])}}
        resp = {"200": {"description": "ok"}}
        if case["used"]:
            resp["200"]["content"] = {"application/json": {"schema": {"$ref": "#/components/schemas/Broken"}}}
        doc["paths"]["/fine"] = {"get": {"operationId": "fineOp", "responses": resp}}
    return doc


# ------------------------------------------------------------------------------------------------ (i) command lines
CLI_SHAPES = ["both_sources", "no_source", "unknown_encoding", "config_not_json", "config_wrong_types", "config_missing", "path_missing",
              "path_is_directory", "url_refused", "url_malformed", "url_not_a_url", "config_yaml", "meta_unknown"]


def _run_cli_shape(case, ctx):
    d = env.fresh_dir("clishape")
    try:
        good = os.path.join(d, "ok.json")
        with open(good, "w") as f:
            json.dump({"openapi": "3.0.3", "info": {"title": "t", "version": "1"}, "paths": {}}, f)
        cfg = os.path.join(d, "cfg.json")
        with open(cfg, "w") as f:
            f.write('{"post_hooks": []}')
        out = os.path.join(d, "o")
        sh = case["shape"]
        base = ["generate", "--output-path", out]
        extra, want_zero = {
            "both_sources": (["--path", good, "--url", "http://127.0.0.1:9/x.json", "--config", cfg], False),
            "no_source": (["--config", cfg], False),
            "unknown_encoding": (["--path", good, "--file-encoding", "klingon", "--config", cfg], False),
            "config_not_json": (["--path", good, "--config", _write(d, "bad.json", '{"post_hooks": ')], False),
            "config_wrong_types": (["--path", good, "--config", _write(d, "bad.yaml", "class_overrides: [1, 2]\n")], False),
            "config_missing": (["--path", good, "--config", os.path.join(d, "nope.json")], False),
            "path_missing": (["--path", os.path.join(d, "nope.json"), "--config", cfg], False),
            "path_is_directory": (["--path", d, "--config", cfg], False),
            "url_refused": (["--url", "http://127.0.0.1:9/x.json", "--config", cfg], False),
            "url_malformed": (["--url", "http://[::1/x.json", "--config", cfg], False),
            "url_not_a_url": (["--url", "not a url", "--config", cfg], False),
            "config_yaml": (["--path", good, "--config", _write(d, "c.yaml", "post_hooks: []\n")], True),
            "meta_unknown": (["--path", good, "--meta", "bogus", "--config", cfg], False),
        }[sh]
        code, so, se, exc = sut.cli(base + extra)
        ctx.evals()
        ctx.label("cli_shape:" + sh)
        ctx.nontrivial(case)
        text = (se or "") + (so or "")
        if exc is not None:
            ctx.violation("cli.raises", {**sut.exc_site(exc), "shape": sh}, repr(exc)[:300])
        elif "Traceback (most recent call last)" in text:
            ctx.violation("cli.traceback", {"shape": sh}, text[-400:])
        elif (code == 0) != want_zero:
            ctx.violation("cli.exit_code", {"shape": sh, "got": code}, text[-300:])
        if not want_zero and os.path.exists(out):
            ctx.violation("rejected.nothing_written", {"shape": sh, "via": "cli"})
    finally:
        env.rm(d)


def _write(d, name, text):
    p = os.path.join(d, name)
    with open(p, "w") as f:
        f.write(text)
    return p


# ------------------------------------------------------------------------------------------------ (k) nesting beyond the recursion limit
DEEP = [("json_arrays", ".json", 100000), ("json_objects", ".json", 50000), ("yaml_flow_arrays", ".yaml", 3000), ("yaml_flow_arrays", ".yaml", 40000),
        ("yaml_flow_maps", ".yaml", 3000), ("yaml_flow_maps", ".yaml", 40000), ("yaml_block", ".yaml", 1500), ("yaml_dashes", ".yaml", 3000),
        ("json_arrays", ".yaml", 40000)]


def _run_deep(case, ctx):
    """Run alone in a fresh interpreter through the command line: a parser that recurses on the C stack kills the process."""
    shape, suffix, n = case["shape"], case["suffix"], case["n"]
    # built lazily: the block form grows with the square of n
    raw = {"json_arrays": lambda: b"[" * n, "json_objects": lambda: b'{"a":' * n, "yaml_flow_arrays": lambda: b"[" * n,
           "yaml_flow_maps": lambda: b"{a: " * n, "yaml_block": lambda: b"".join(b" " * i + b"a:\n" for i in range(n)),
           "yaml_dashes": lambda: b"- " * n}[shape]()
    d = env.fresh_dir("deep")
    try:
        src = os.path.join(d, "doc" + suffix)
        with open(src, "wb") as f:
            f.write(raw)
        cfg = _write(d, "cfg.json", '{"post_hooks": []}')
        code = ("import sys; sys.path.insert(0, %r); from openapi_python_client.cli import app; app()" % env.REPO)
        ctx.evals()
        ctx.label("deep:" + shape)
        ctx.nontrivial(case)
        try:
            r = subprocess.run([sys.executable, "-c", code, "generate", "--path", src, "--output-path", os.path.join(d, "o"), "--config", cfg],
                               capture_output=True, timeout=150, cwd=d)
        except subprocess.TimeoutExpired:
            ctx.violation("terminates", {"stage": "deep", "shape": shape}, f"{shape} x {n}: no result after 150 s")
            return
        text = (r.stderr or b"").decode("utf-8", "replace") + (r.stdout or b"").decode("utf-8", "replace")
        fmt = "yaml" if suffix != ".json" else "json"
        if r.returncode < 0:
            ctx.violation("process.survives", {"signal": -r.returncode, "format": fmt}, f"{shape} x {n}: killed by signal {-r.returncode}")
        elif "Traceback (most recent call last)" in text:
            last = [ln for ln in text.strip().splitlines() if ln.strip()][-1]
            ctx.violation("cli.traceback", {"shape": shape, "format": fmt, "exc": last.split(":")[0][:40]}, text[-500:])
        elif r.returncode != 1:
            ctx.violation("cli.exit_code", {"shape": shape, "got": r.returncode}, text[-300:])
    finally:
        env.rm(d)


import re as _re

_SURROGATE_ESCAPE = _re.compile(rb"\\u[dD][89a-fA-F][0-9a-fA-F]{2}(?!\\u[dD][c-fC-F])|(?<!\\u[dD][89abAB][0-9a-fA-F]{2})\\u[dD][c-fC-F][0-9a-fA-F]{2}")


def case_timeout(case):
    return ATHERIS_CASE_TIMEOUT if isinstance(case, dict) and case.get("kind") == "atheris" else CASE_TIMEOUT


def sweep(tier):
    cases = cyclic_docs() + collision_docs() + stress_cases() + matrix_cases() + problem_cases()
    cases += [{"kind": "cli_shape", "shape": sh} for sh in CLI_SHAPES]
    cases += [{"kind": "deep", "shape": a, "suffix": b, "n": c} for a, b, c in DEEP]
    if tier == "thorough":
        # coverage-guided campaigns (atheris/libFuzzer on the loader + parser): 8 from an empty corpus, 8 from a seeded one
        for k in range(16):
            cases.append({"kind": "atheris", "campaign": k, "corpus": "empty" if k < 8 else "seeded", "runs": ATHERIS_RUNS})
    return cases


def _run_atheris(case, ctx):
    from ..core import load_findings

    d = env.fresh_dir("atheris")
    corpus = os.path.join(d, "corpus")
    os.makedirs(corpus)
    if case.get("corpus") == "seeded":
        seeds = [b"\x00\x00" + json.dumps({"openapi": "3.0.3", "info": {"title": "t", "version": "1"}, "paths": {}}).encode(),
                 b"\x00\x01openapi: 3.0.3\ninfo: {title: t, version: '1'}\npaths: {}\ncomponents:\n  schemas:\n    A: {type: object, properties: {x: {type: string, enum: [a, b]}}}\n",
                 b"\x01\x00\x01\x02\x03\x04\x05\x06\x07\x08", b"\x02\x01\x10\x20\x30\x40\x50\x60\x70\x80\x90"]
        for i, sd in enumerate(seeds):
            with open(os.path.join(corpus, f"seed{i}"), "wb") as f:
                f.write(sd)
    known = [f["site"] for f in load_findings("C06") if f.get("status", "open") == "open" and isinstance(f.get("site"), dict)]
    dump = os.path.join(d, "crash-case.json")
    envv = {**os.environ, "VERIF_C06_KNOWN": json.dumps(known), "VERIF_C06_DUMP": dump}
    try:
        r = subprocess.run([sys.executable, "-m", "engine.fuzz_c06", corpus, f"-runs={case.get('runs', ATHERIS_RUNS)}",
                            f"-seed={1000 + int(case.get('campaign', 0))}", "-max_len=4096", f"-artifact_prefix={d}/", "-timeout=60"],
                           cwd=env.VERIF, env=envv, capture_output=True, text=True, timeout=3300)
    except subprocess.TimeoutExpired:
        ctx.label("atheris:campaign_timeout")
        ctx.skip("atheris_timeout")
        env.rm(d)
        return
    out = (r.stderr or "") + (r.stdout or "")
    import re as _re

    m = _re.search(r"Done (\d+) runs", out)
    n = int(m.group(1)) if m else 0
    execs = [int(x) for x in _re.findall(r"#(\d+)\s", out)]
    ctx.evals(max([n] + execs) if (n or execs) else 0)
    ctx.label("atheris:" + case.get("corpus", "empty"))
    if "Failed to find function" not in out and "INITED" not in out and "Done" not in out:
        from ..core import HarnessError

        raise HarnessError("atheris target did not start: " + out[-400:])
    ctx.nontrivial(["atheris", case.get("campaign"), case.get("corpus")])
    ctx.sample = {"kind": "atheris", "campaign": case.get("campaign"), "corpus": case.get("corpus"), "runs": max([n] + execs) if (n or execs) else 0,
                  "corpus_files_at_end": len(os.listdir(corpus))}
    if os.path.exists(dump):
        with open(dump, encoding="utf-8") as f:
            found = json.load(f)
        ctx.case_override = found
        run(found, ctx)       # judge the found input with the ordinary oracle (gives clause + site); it is the replay file
        if not ctx.violations:
            ctx.violation("api.raises", {"exc": "unreproduced", "via": "atheris"}, out[-600:])
    elif r.returncode != 0 and "ESCAPED-EXCEPTION" in out:
        ctx.violation("api.raises", {"exc": "undumped", "via": "atheris"}, out[-600:])
    elif "ALARM: working on the last Unit" in out or "timeout after" in out:
        ctx.label("atheris:slow_unit")
    env.rm(d)


def strategy(tier):
    return st.one_of(mutated_doc(), mutated_doc(), mutated_doc(), json_value_doc(), bytes_doc())


def _source(case) -> tuple[str, object]:
    """Write the input file; return (path, parsed-by-harness-or-None)."""
    if case["kind"] == "bytes":
        raw = case["data"].encode("latin-1")
        return sut.write_doc(None, raw=raw, suffix=case.get("suffix", ".json")), None
    doc = case["doc"]
    if case.get("yaml"):
        try:
            return sut.write_doc(doc, as_yaml=True), doc
        except Exception:
            pass
    d = env.fresh_dir("src")
    p = os.path.join(d, "openapi.json")
    with open(p, "w", encoding="utf-8") as f:
        json.dump(doc, f)  # allow_nan: Infinity/NaN literals are bytes a user can offer as well
    return p, doc


def run(case, ctx):
    if case.get("kind") == "atheris":
        return _run_atheris(case, ctx)
    if case.get("kind") == "cli_shape":
        return _run_cli_shape(case, ctx)
    if case.get("kind") == "deep":
        return _run_deep(case, ctx)
    expect_diag = False
    if case.get("kind") == "problem":
        ctx.label("problem:" + case["where"])
        expect_diag = True
        case = {"kind": "doc", "doc": _problem_doc(case), "yaml": False, "cli": True, "fow": True, "meta": "none",
                "problem": [case["where"], case["fault"], case.get("tags"), case.get("sibling"), case.get("used")]}
    if case.get("kind") == "stress":
        ctx.label("stress_string")
        case = {"kind": "doc", "doc": _stress_doc(case), "yaml": False, "cli": False, "fow": False, "meta": "none", "stress": [case["slot"], case["string"]]}
    if case.get("kind") == "matrix":
        ctx.label("value_matrix")
        case = {"kind": "doc", "doc": _matrix_doc(case), "yaml": False, "cli": False, "fow": False, "meta": "none",
                "matrix": [case["schema"], case["keyword"], case["value"], case["pos"]]}
    if case.get("collision"):
        ctx.label("class_name_collision")
    src, doc = _source(case)
    meta = case.get("meta", "none")
    res = sut.generate(source=src, meta=meta, via_project=False)
    ctx.sample = case
    try:
        if res.exc is not None:
            ctx.label("api:crash")
            site = dict(res.exc_site)
            if isinstance(res.exc, UnicodeError):
                # which input made it unencodable: a lone surrogate in the document's text is the only way JSON can carry one
                try:
                    with open(src, "rb") as fh:
                        head = fh.read()
                    site = {"exc": type(res.exc).__name__, "lone_surrogate_in_document": bool(_SURROGATE_ESCAPE.search(head))}
                except OSError:
                    pass
            ctx.violation("api.raises", site, f"{res.exc!r}")
            ctx.nontrivial(case)
            return
        errs = res.errors
        if not isinstance(errs, list):
            ctx.violation("api.returns_list", {"type": type(errs).__name__})
            return
        for e in errs:
            if not (getattr(e, "header", None) or getattr(e, "detail", None)):
                ctx.violation("api.diagnostic_has_text", {"type": type(e).__name__})
        if expect_diag and not errs:
            ctx.violation("problem.reported", {"where": case["problem"][0], "fault": case["problem"][1]}, f"no diagnostic for {case['problem']}")
        wrote = os.path.exists(res.out)
        if res.has_error_level:
            ctx.label("rejected")
            if wrote:
                ctx.violation("rejected.nothing_written", {"meta": meta}, f"{os.listdir(res.out)[:5]}")
        elif errs:
            ctx.label("warnings")
        else:
            ctx.label("clean")
        if not res.has_error_level and not wrote:
            ctx.violation("accepted.output_written", {"meta": meta})
        is_doc = isinstance(doc, dict) and all(k in doc for k in ("openapi", "info", "paths"))
        if case["kind"] == "bytes":
            is_doc = wrote or (bool(errs) and "Failed to parse OpenAPI" not in (errs[0].header or "") and "Invalid" not in (errs[0].header or ""))
        if is_doc and (errs or wrote):
            ctx.nontrivial(case)
        # CLI agreement
        if case.get("cli"):
            ctx.evals()
            out2 = os.path.join(env.fresh_dir("cli"), "o")
            args = ["generate", "--path", src, "--meta", meta, "--output-path", out2]
            if case.get("fow"):
                args.append("--fail-on-warning")
            cfgp = os.path.join(os.path.dirname(src), "cfg.json")
            with open(cfgp, "w") as f:
                f.write('{"post_hooks": []}')
            args += ["--config", cfgp]
            code, so, se, exc = sut.cli(args)
            if exc is not None:
                ctx.violation("cli.raises", sut.exc_site(exc), repr(exc))
            else:
                want = 1 if (res.has_error_level or (case.get("fow") and errs)) else 0
                if code != want:
                    ctx.violation("cli.exit_code", {"want": want, "got": code, "fow": bool(case.get("fow"))},
                                  (se or so)[-400:])
                text = (se or "") + (so or "")
                if "Traceback (most recent call last)" in text:
                    ctx.violation("cli.traceback", {"code": code}, text[-600:])
                if res.has_error_level and "Error(s) encountered" not in text:
                    ctx.violation("cli.banner", {"want": "error"}, text[:300])
                if not res.has_error_level and errs and "Warning(s) encountered" not in text:
                    ctx.violation("cli.banner", {"want": "warning"}, text[:300])
                if not errs and ("encountered" in text):
                    ctx.violation("cli.banner", {"want": "none"}, text[:300])
                if res.has_error_level and os.path.exists(out2):
                    ctx.violation("rejected.nothing_written", {"meta": meta, "via": "cli"})
            env.rm(os.path.dirname(out2))
    finally:
        env.rm(os.path.dirname(res.out))
        env.rm(os.path.dirname(src))


def _describe(case) -> str:
    """Short, stable description of a case for timeout reports."""
    k = case.get("kind")
    if k in ("deep", "cli_shape", "problem", "atheris"):
        return json.dumps({a: b for a, b in case.items() if a not in ("doc",)}, sort_keys=True)[:160]
    if k == "stress":
        return f"stress slot={case.get('slot')} string={case.get('string')}"
    if k == "matrix":
        return "matrix " + json.dumps([case.get("schema"), case.get("keyword"), case.get("pos")])[:120]
    if k == "bytes":
        return f"bytes suffix={case.get('suffix')} len={len(case.get('data', ''))} head={case.get('data', '')[:40]!r}"
    return f"{k} size={len(json.dumps(case.get('doc'), default=str)) if case.get('doc') is not None else 0} " + ("collision" if case.get("collision") else "") + ("cyclic" if case.get("cyclic") else "")


def on_timeout(case, ctx):
    """A first-stage timeout is only a suspect; confirm alone in a fresh interpreter with a longer limit."""
    ctx.label("timeout-suspect")
    what = _describe(case)
    ctx.label("timeout-suspect:" + what)
    if ctx.replay and os.environ.get("VERIF_C06_CONFIRMING"):
        ctx.violation("terminates", {"stage": "confirm"}, "did not terminate within the limit: " + what)
        return
    d = env.fresh_dir("hang")
    p = os.path.join(d, "case.json")
    with open(p, "w") as f:
        json.dump(case, f)
    try:
        r = subprocess.run([sys.executable, "-m", "engine.main", "C06", "--replay", p], cwd=env.VERIF, timeout=200,
                           env={**os.environ, "VERIF_C06_CONFIRMING": "1", "VERIF_C06_TIMEOUT": "100"}, capture_output=True)
        if r.returncode == 1 and b"clause=terminates" in r.stdout:
            ctx.violation("terminates", {"stage": "confirmed"}, "no result after 45 s in-process and 100 s alone in a fresh interpreter: " + what)
        else:
            ctx.label("timeout-unconfirmed")
    except subprocess.TimeoutExpired:
        ctx.violation("terminates", {"stage": "confirmed"}, "no result after 45 s in-process and 200 s alone: " + what)
    env.rm(d)
