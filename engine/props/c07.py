"""C07 - nothing in the document is dropped silently."""
from __future__ import annotations

import copy
import os
import re

from hypothesis import strategies as st

from .. import behave, env, http, locate, pyast, sut

ID = "C07"
BUDGET = {"quick": 640, "thorough": 10000}
RULE = ("documents with 1-6 operations and 1-6 component schemas (objects, string/int enums), a unique marker in every object "
        "description, enum value and operation summary; names, operationIds, titles and tags drawn from pools built to coincide "
        "(op/Op/o-p/o_p, my_model/MyModel, inline Parent+child vs component ParentChild, tags 'a b'/'a_b'); any subset broken "
        "(array without items, dangling $ref, invalid default, mixed enum, optional path parameter, duplicate parameter, "
        "unparseable / unsupported body, invalid status keys, unsupported response media type); with and without "
        "generate_all_tags. Census: every operation and every object/enum component is either present (its marker occurs in a "
        "generated module) or identified by a diagnostic; no module holds the markers of two items unless a diagnostic names one; "
        "every documented status of a generated operation is handled (served with raise_on_unexpected_status=True it does not "
        "raise) or named in a warning for that operation; every request media type is selectable or warned. Non-trivial = >=3 "
        "items of which >=1 broken or >=1 coincidence. distinct = hash(document).")
ASSUMPTIONS = [
    "diagnostic wording is never matched, only identification by component name / reference path / 'METHOD path'",
    "scalar/array component schemas generate no class by design and are not in the census",
    "a generator crash is C06's verdict (counted, skipped)",
]

_live: set[str] = set()


def configure(live_ids, tier, opts):
    global _live
    _live = set(live_ids)


SCHEMA_NAMES = ["Alpha", "alpha", "Alpha_", "my_model", "MyModel", "My.Model", "my-model", "Bravo", "BravoKid", "Bravo_Kid", "Charlie",
                "charlie", "Delta", "DeltaStatus", "Echo1", "echo_1", "Foxtrot"]
OPIDS = ["op", "Op", "o-p", "o_p", "OP", "fetch", "Fetch", "fetchAll", "fetch_all", "fetch-all", "listThings", None, None]
TAGS = ["a b", "a_b", "A_B", "t1", "t2", "T1"]
PATHS = ["/a/{x}", "/a_x", "/a/x", "/b", "/b/{y}", "/c", "/c_{z}", "/d/e", "/d_e"]
SCHEMA_FAULT = ["array_without_items", "dangling_ref", "invalid_default", "mixed_enum"]
OP_FAULT = ["optional_path_param", "duplicate_param", "unparseable_body", "unsupported_body_only", "param_bad_schema"]


@st.composite
def cases(draw, tier):
    n_s = draw(st.integers(1, 6))
    names = draw(st.lists(st.sampled_from(SCHEMA_NAMES), min_size=n_s, max_size=n_s, unique=True))
    schemas = []
    for i, nm in enumerate(names):
        kind = draw(st.sampled_from(["object", "object", "object", "str_enum", "int_enum"]))
        s = {"name": nm, "kind": kind, "marker": f"MARKzqS{i}qz", "fault": None, "title": None, "inline_child": None}
        if kind == "object":
            if draw(st.integers(0, 3)) == 0:
                s["fault"] = draw(st.sampled_from(SCHEMA_FAULT))
            if draw(st.integers(0, 5)) == 0:
                s["title"] = draw(st.sampled_from(["Shared Title", "Alpha", "MyModel"]))
            if draw(st.integers(0, 3)) == 0:
                s["inline_child"] = draw(st.sampled_from(["kid", "Kid", "status", "item"]))
                s["inline_kind"] = draw(st.sampled_from(["object", "enum"]))
            if i > 0 and draw(st.integers(0, 3)) == 0:
                s["ref_to"] = names[draw(st.integers(0, i - 1))]
                s["ref_how"] = draw(st.sampled_from(["prop", "array", "union"]))
        schemas.append(s)
    if draw(st.integers(0, 5)) == 0:
        # a broken component and a dependant whose name is the beginning of the broken one's (Bravo holds a BravoKid): the dependant
        # goes away with it and must be named itself - "BravoKid" in a diagnostic does not name "Bravo"
        long_, short = draw(st.sampled_from([("BravoKid", "Bravo"), ("DeltaStatus", "Delta"), ("Alpha_", "Alpha"), ("Echo1", "Echo"), ("MyModelItem", "MyModel")]))
        schemas = [x for x in schemas if x["name"] not in (long_, short)]
        for x in schemas:
            if x.get("ref_to") in (long_, short):
                x.pop("ref_to")
        k0 = len(schemas)
        schemas.append({"name": long_, "kind": "object", "marker": f"MARKzqS{k0}qz", "fault": draw(st.sampled_from(SCHEMA_FAULT)), "title": None, "inline_child": None})
        schemas.append({"name": short, "kind": "object", "marker": f"MARKzqS{k0 + 1}qz", "fault": None, "title": None, "inline_child": None,
                        "ref_to": long_, "ref_how": draw(st.sampled_from(["prop", "array", "union"]))})
        if draw(st.booleans()):
            schemas[-1], schemas[-2] = schemas[-2], schemas[-1]
        names = [x["name"] for x in schemas]
    n_o = draw(st.integers(1, 6))
    paths = draw(st.lists(st.sampled_from(PATHS), min_size=n_o, max_size=n_o, unique=True))
    ops = []
    for i, p in enumerate(paths):
        o = {"path": p, "method": draw(st.sampled_from(["get", "post", "put", "delete"])), "opid": draw(st.sampled_from(OPIDS)),
             "tags": draw(st.lists(st.sampled_from(TAGS), max_size=2, unique=True)), "marker": f"MARKzqO{i}qz",
             "fault": draw(st.sampled_from(OP_FAULT)) if draw(st.integers(0, 4)) == 0 else None,
             "responses": draw(st.lists(st.sampled_from(["200", "201", "204", "404", "500", "default", "2XX", "600", "abc"]),
                                        min_size=1, max_size=3, unique=True)),
             "resp_media": draw(st.sampled_from(["json", "json", "none", "xml", "text"])),
             "body": draw(st.sampled_from(BODIES)),
             "empty_tags_key": draw(st.integers(0, 2)) == 0,
             "uses": draw(st.sampled_from([None] + names))}
        ops.append(o)
    return {"schemas": schemas, "ops": ops, "all_tags": draw(st.booleans()), "literal": draw(st.booleans())}


def strategy(tier):
    return cases(tier)


_OBJ_F = {"type": "object", "properties": {"f": {"type": "string"}}}
# request media types by key; several keys joined with '+' give one operation several media types (two of one encoding family
# with the same schema included: each is a separate thing the document says)
MEDIA = {"json": ("application/json", {"type": "string"}), "xml": ("application/xml", {"type": "string"}),
         "form": ("application/x-www-form-urlencoded", _OBJ_F), "multipart": ("multipart/form-data", _OBJ_F),
         "patchjson": ("application/merge-patch+json", {"type": "string"}), "vndjson": ("application/vnd.note+json", {"type": "string"}),
         "vndint": ("application/vnd.count+json", {"type": "integer"}), "octet": ("application/octet-stream", {"type": "string", "format": "binary"})}
BODIES = [None, None, None, "json", "json+xml", "form", "xml", "json+patchjson", "json+vndjson", "patchjson+vndjson+json", "json+vndint",
          "form+multipart", "json+form", "octet", "json+octet"]


FAULTS = {"array_without_items": {"type": "array"}, "dangling_ref": {"$ref": "#/components/schemas/ZzNope"},
          "invalid_default": {"type": "integer", "default": "zz"}, "mixed_enum": {"enum": ["a", 1]}}


def build(case):
    comps = {}
    enum_values = {}
    for i, s in enumerate(case["schemas"]):
        if s["kind"] == "object":
            props = {"plain": {"type": "string"}}
            if s.get("fault"):
                props["zzBad"] = copy.deepcopy(FAULTS[s["fault"]])
            if s.get("inline_child"):
                if s.get("inline_kind") == "enum":
                    props[s["inline_child"]] = {"type": "string", "enum": [f"in{i}a", f"in{i}b"]}
                else:
                    props[s["inline_child"]] = {"type": "object", "properties": {"deep": {"type": "integer"}}}
            if s.get("ref_to"):
                r = {"$ref": "#/components/schemas/" + s["ref_to"]}
                props["link"] = r if s["ref_how"] == "prop" else ({"type": "array", "items": r} if s["ref_how"] == "array" else {"anyOf": [r, {"type": "integer"}]})
            d = {"type": "object", "description": s["marker"], "properties": props}
            if s.get("title"):
                d["title"] = s["title"]
            comps[s["name"]] = d
        elif s["kind"] == "str_enum":
            vals = [f"mk{i}x", f"mk{i}y"]
            enum_values[s["name"]] = vals
            comps[s["name"]] = {"type": "string", "enum": vals}
        else:
            vals = [9000 + 10 * i, 9001 + 10 * i]
            enum_values[s["name"]] = vals
            comps[s["name"]] = {"type": "integer", "enum": vals}
    paths = {}
    for o in case["ops"]:
        op = {"summary": o["marker"]}
        if o["opid"] is not None:
            op["operationId"] = o["opid"]
        if o["tags"]:
            op["tags"] = list(o["tags"])
        elif o.get("empty_tags_key"):
            op["tags"] = []   # an explicitly empty list says the same as no list
        params = []
        for ph in re.findall(r"{([^}]*)}", o["path"]):
            params.append({"name": ph, "in": "path", "required": True, "schema": {"type": "string"}})
        if o.get("uses"):
            params.append({"name": "filterBy", "in": "query", "schema": {"$ref": "#/components/schemas/" + o["uses"]}})
        f = o.get("fault")
        if f == "optional_path_param":
            if params and params[0]["in"] == "path":
                params[0].pop("required", None)
            else:
                params.append({"name": "zzopt", "in": "path", "schema": {"type": "string"}})
        elif f == "duplicate_param":
            params += [{"name": "zzdup", "in": "query", "schema": {"type": "string"}}, {"name": "zzdup", "in": "query", "schema": {"type": "integer"}}]
        elif f == "param_bad_schema":
            params.append({"name": "zzbad", "in": "query", "schema": {"type": "array"}})
        if params:
            op["parameters"] = params
        body = o.get("body")
        if f == "unparseable_body":
            op["requestBody"] = {"content": {"application/json": {"schema": {"type": "array"}}}}
        elif f == "unsupported_body_only":
            op["requestBody"] = {"content": {"application/xml": {"schema": {"type": "string"}}}}
        elif body:
            op["requestBody"] = {"content": {MEDIA[k][0]: {"schema": copy.deepcopy(MEDIA[k][1])} for k in body.split("+")}}
        resp = {}
        for st_ in o["responses"]:
            if o["resp_media"] == "json":
                resp[st_] = {"description": "r", "content": {"application/json": {"schema": {"type": "string"}}}}
            elif o["resp_media"] == "xml":
                resp[st_] = {"description": "r", "content": {"application/xml": {"schema": {"type": "string"}}}}
            elif o["resp_media"] == "text":
                resp[st_] = {"description": "r", "content": {"text/plain": {"schema": {"type": "string"}}}}
            else:
                resp[st_] = {"description": "r"}
        op["responses"] = resp
        paths.setdefault(o["path"], {})[o["method"]] = op
    return {"openapi": "3.0.3", "info": {"title": "t", "version": "1"}, "paths": paths, "components": {"schemas": comps}}, enum_values


def _norm(s: str) -> str:
    return re.sub(r"[^a-z0-9]", "", s.lower())


def run(case, ctx):
    doc, enum_values = build(case)
    res = sut.generate(doc, cfg={"generate_all_tags": bool(case.get("all_tags")), "literal_enums": bool(case.get("literal"))})
    try:
        if res.exc is not None:
            ctx.violation("generator.completes", res.exc_site, repr(res.exc)[:300])   # a valid document: the crash itself breaks the property
            ctx.label("crash:" + res.exc_site["exc"])
            return
        if not res.accepted:
            ctx.skip("rejected")
            return
        diag = res.diag_text()
        files = {os.path.relpath(f, res.out): open(f, encoding="utf-8", errors="replace").read() for f in pyast.py_files(res.out)}
        model_files = {k: v for k, v in files.items() if k.startswith("models" + os.sep) and not k.endswith("__init__.py")}
        api_files = {k: v for k, v in files.items() if k.startswith("api" + os.sep) and not k.endswith("__init__.py")}
        # coincidence facts (used to scope known findings and the non-trivial rule)
        # an operation without operationId is named after its method and path (braces dropped): '/a/{x}' and '/a/x' coincide too
        opnames = [(_norm(o["opid"]) if o["opid"] is not None else _norm(o["method"] + "_" + o["path"].replace("{", "").replace("}", "")))
                   for o in case["ops"]]
        dup_opid = len([x for x in opnames if x is not None]) != len({x for x in opnames if x is not None})

        def _packages(o):
            """The tag packages an operation's module is written to (first tag, or every tag with generate_all_tags)."""
            tags = [_norm(t) for t in (o["tags"] or ["default"])]
            return set(tags if case.get("all_tags") else tags[:1])

        def _shares_module_with_other(o, k):
            """Another operation's id maps to the same module name *inside the same tag package* (the shape of KF-C07-01;
            the same id under different tags gives two separate files and is no collision)."""
            if opnames[k] is None:
                return False
            return any(j != k and opnames[j] == opnames[k] and (_packages(o) & _packages(o2)) for j, o2 in enumerate(case["ops"]))
        snames = [_norm(s["name"]) for s in case["schemas"]] + [_norm(s["name"] + s["inline_child"]) for s in case["schemas"] if s.get("inline_child")] \
            + [_norm(s["title"]) for s in case["schemas"] if s.get("title")]
        dup_schema = len(snames) != len(set(snames))
        # ---- operations
        present_ops = []
        for k_op, o in enumerate(case["ops"]):
            ident = f"{o['method'].upper()} {o['path']}"
            holders = [k for k, v in api_files.items() if o["marker"] in v]
            n_tags = max(1, len(o["tags"]))
            site = {"item": "operation", "fault": o.get("fault") or "none",
                    **({"coinciding_operation_ids": True} if _shares_module_with_other(o, k_op) else {})}
            ctx.evals()
            if not holders:
                if ident not in diag:
                    ctx.violation("operation.present_or_diagnosed", site, f"{ident} (opid {o['opid']!r}) neither generated nor named")
                continue
            present_ops.append(o)
            if case.get("all_tags"):
                if len(holders) > n_tags:
                    ctx.violation("operation.module_count", site, f"{ident}: {holders}")
            elif len(holders) != 1:
                ctx.violation("operation.module_count", site, f"{ident}: {holders}")
        for k, v in api_files.items():
            marks = sorted(set(re.findall(r"MARKzqO\d+qz", v)))
            if len(marks) > 1:
                ctx.violation("module.single_item", {"item": "operation"}, f"{k}: {marks}")
        # ---- schemas
        for i, s in enumerate(case["schemas"]):
            site = {"item": "schema", "kind": s["kind"], "fault": s.get("fault") or "none", **({"coinciding_class_names": True} if dup_schema else {})}
            if any(o is not s and o.get("inline_child") and _norm(o["name"] + o["inline_child"]) == _norm(s["name"]) for o in case["schemas"]):
                site["clashes_with_inline_child_class"] = True   # Parent + child property -> the same class name as this component
            ctx.evals()
            if s["kind"] == "object":
                found = [k for k, v in model_files.items() if s["marker"] in v]
            else:
                vals = enum_values[s["name"]]
                found = [k for k, v in model_files.items() if all((repr(x) in v or f'"{x}"' in v or f"= {x}" in v) for x in vals)]
            if found:
                continue
            named = sut.names_item(diag, s["name"])
            if not named:
                ctx.violation("schema.present_or_diagnosed", site, f"{s['name']} ({s['kind']}) neither generated nor named; diagnostics: {diag[:200]!r}")
        # (a model module's attribute docstrings legitimately quote the descriptions of referenced models, so two schema
        # markers in one module are not a collapse; a real collapse loses one marker and is caught by the presence clause)
        # ---- statuses and media types of generated operations
        if present_ops:
            _check_handling(ctx, case, res, present_ops, diag, api_files)
        broken = any(o.get("fault") for o in case["ops"]) or any(s.get("fault") for s in case["schemas"])
        if len(case["ops"]) + len(case["schemas"]) >= 3 and (broken or dup_opid or dup_schema):
            ctx.nontrivial(doc)
            ctx.sample = {"operations": [[o["method"], o["path"], o["opid"], o["tags"], o.get("fault")] for o in case["ops"]],
                          "schemas": [[s["name"], s["kind"], s.get("fault"), s.get("title"), s.get("inline_child")] for s in case["schemas"]],
                          "generate_all_tags": bool(case.get("all_tags")), "diagnostics": len(res.errors)}
        if dup_opid:
            ctx.label("coinciding_operation_ids")
        if dup_schema:
            ctx.label("coinciding_class_names")
        if broken:
            ctx.label("has_broken_piece")
    finally:
        env.rm(res.out)


def _check_handling(ctx, case, res, present_ops, diag, api_files):
    try:
        pkg = sut.Loaded(res.package_dir)
    except BaseException as e:  # noqa: BLE001
        if behave._is_ctl(e):
            raise
        ctx.label("import_failed")
        return
    with pkg:
        for o in present_ops:
            ident = f"{o['method'].upper()} {o['path']}"
            er = locate.find_endpoint(res, {"method": o["method"], "path": o["path"]})
            if er is None:
                continue
            try:
                mod = pkg.mod(er.module)
            except BaseException as e:  # noqa: BLE001
                if behave._is_ctl(e):
                    raise
                continue
            src = api_files.get(er.module.replace(".", os.sep) + ".py", "")
            if o["marker"] not in src:
                continue   # another operation's module took this name (judged above)
            # the lines of the diagnostics that belong to this operation
            mine = _diag_for(res, ident)
            for st_ in o["responses"]:
                site = {"item": "response", "status": st_ if not st_.isdigit() else "numeric", "media": o["resp_media"], "body": o.get("body") or "none"}
                ctx.evals()
                valid = st_.isdigit() and 100 <= int(st_) <= 599 and _is_http_status(int(st_))
                if not valid or o["resp_media"] == "xml":
                    if st_ not in mine:
                        ctx.violation("response.handled_or_warned", site, f"{ident}: response {st_!r} is not generated and no warning of this operation names it; warnings: {mine[:200]!r}")
                    continue
                kwargs = {}
                for ph in re.findall(r"{([^}]*)}", o["path"]):
                    py = er.pynames.get(("path", ph))
                    if py:
                        kwargs[py] = "v"
                import inspect

                sig = inspect.signature(mod.sync_detailed)
                if "body" in sig.parameters:
                    kwargs["body"] = "b" if o.get("body") in ("json", "json+xml") else None
                    if o.get("body") == "form":
                        try:
                            ann = sig.parameters["body"].annotation
                            kwargs["body"] = ann.from_dict({"f": "x"})
                        except Exception:
                            continue
                content = b'"x"' if o["resp_media"] == "json" else (b"x" if o["resp_media"] == "text" else b"")
                cap = http.Capture(status=int(st_), content=content,
                                   headers={"content-type": "application/json" if o["resp_media"] == "json" else "text/plain"})
                client = http.make_client(pkg, cap, secured=False, raise_on_unexpected=True)
                try:
                    mod.sync_detailed(client=client, **kwargs)
                except pkg.errors.UnexpectedStatus:
                    if st_ not in mine:
                        ctx.violation("response.handled_or_warned", site, f"{ident}: documented status {st_} is treated as unexpected and no warning names it")
                except BaseException as e:  # noqa: BLE001
                    if behave._is_ctl(e):
                        raise
                    ctx.label("call_failed:" + type(e).__name__)
                finally:
                    http.close_client(client)
            # request media types
            body = o.get("body")
            if body and not o.get("fault"):
                for key in body.split("+"):
                    mt = MEDIA[key][0]
                    ctx.evals()
                    if mt in src:
                        continue
                    if ident not in diag:
                        ctx.violation("request_media.selectable_or_warned", {"item": "request_media", "media": key},
                                      f"{ident}: {mt} neither selectable nor warned")


def _is_http_status(n: int) -> bool:
    from http import HTTPStatus

    try:
        HTTPStatus(n)
        return True
    except ValueError:
        return False


def _diag_for(res, ident: str) -> str:
    out = []
    for e in res.errors or []:
        text = f"{e.header or ''}\n{e.detail or ''}"
        if ident in text:
            out.append(text)
    return "\n".join(out)
