"""C08 - a bad piece of the document never damages unrelated output."""
from __future__ import annotations

import copy
import os
import re

from hypothesis import strategies as st

from .. import behave, env, pyast, sut
from ..gen import docs
from . import c01

ID = "C08"
BUDGET = {"quick": 480, "thorough": 8000}
RULE = ("a clean generated base document D (zero diagnostics, else discarded) x 1-3 bad-piece insertions giving D': bad "
        "property added to a component (array without items, dangling $ref, remote $ref, invalid default, mixed-type enum, "
        "unsupported const default), new broken components (incl. an incompatible allOf child of an existing component), "
        "operation-level faults (optional path parameter, duplicated parameter, unparseable or unsupported-only body, invalid "
        "status key, response with a dangling schema reference), hosts at every position incl. schemas others depend on "
        "transitively and members of reference cycles. Non-trivial = the host has >=1 dependant, or >=2 insertions, or the host "
        "is on a cycle. distinct = hash(D, insertions). An evaluation = one generation.")
ASSUMPTIONS = [
    "Affected = hosts plus everything that reaches a host in the IR reference graph (harness' own reverse reachability); it "
    "over-approximates, so a generator that contains damage better never alarms",
    "file ownership is by module-name prefix (safe single-word component names, distinct operation words)",
    "inserted names come from a reserved Zz... namespace that cannot coincide with names derived from D",
    "models/__init__.py may differ only in which names it lists",
]

_live: set[str] = set()


def configure(live_ids, tier, opts):
    global _live
    _live = set(live_ids)


SCHEMA_FAULTS = {
    "array_without_items": {"type": "array"},
    "dangling_ref": {"$ref": "#/components/schemas/ZzNope"},
    "remote_ref": {"$ref": "other.yaml#/components/schemas/ZzRemote"},
    "invalid_default": {"type": "integer", "default": "zzbad"},
    "mixed_enum": {"enum": ["a", 1]},
    "bad_date_default": {"type": "string", "format": "date", "default": "zz-not-a-date"},
    "const_default_mismatch": {"const": "a", "default": "b"},
    "nested_bad_item": {"type": "array", "items": {"type": "array"}},
    "union_with_bad_member": {"anyOf": [{"type": "string"}, {"$ref": "#/components/schemas/ZzNope"}]},
    "enum_with_list_member": {"type": "string", "enum": ["asc", "desc", ["asc", "desc"]]},
    "enum_with_object_member": {"enum": ["asc", {"by": "name"}]},
    "enum_default_is_list": {"type": "string", "enum": ["asc", "desc"], "default": ["asc"]},
    "string_default_is_object": {"type": "string", "format": "uuid", "default": {"a": 1}},
    "tuple_with_bad_slot": {"type": "array", "prefixItems": [{"type": "string"}, {"type": "array"}]},
    "allof_remote_ref": {"allOf": [{"$ref": "other.yaml#/components/schemas/ZzRemote"}, {"type": "object", "properties": {"x": {"type": "string"}}}]},
    "allof_dangling_ref": {"allOf": [{"$ref": "#/components/schemas/ZzNope"}, {"type": "object", "properties": {"x": {"type": "string"}}}]},
    "float_enum": {"type": "number", "enum": [1.5, 2.5]},
    "array_of_float_enum": {"type": "array", "items": {"enum": [1.5, True]}},
}
_NUM = ["One", "Two", "Six", "Ten", "Uno", "Due"]
OP_FAULTS = ["optional_path_param", "duplicate_param", "unparseable_body", "unsupported_body_only", "invalid_status",
             "response_dangling_ref", "param_bad_schema", "param_dangling_ref", "header_union_with_array", "param_ref_chain"]


@st.composite
def cases(draw, tier):
    prof = docs.profile(max_schemas=5, max_props=3, max_ops=3, max_depth=1, desc=False, allof=True, component_unions=True, prefix_items=True, affix_names=True)
    ir = draw(docs.doc_ir(prof, min_schemas=2))
    n = draw(st.integers(1, 3))
    ins = []
    obj_names = [nm for nm, s in ir["schemas"] if s["k"] == "object"]
    for i in range(n):
        kind = draw(st.sampled_from(["prop", "prop", "prop", "new_component", "allof_child", "op", "op"]))
        if kind in ("prop", "allof_child") and not obj_names:
            kind = "new_component"
        if kind == "prop":
            ins.append({"kind": "prop", "host": draw(st.sampled_from(obj_names)), "fault": draw(st.sampled_from(sorted(SCHEMA_FAULTS))),
                        "required": draw(st.booleans()), "n": i})
        elif kind == "new_component":
            ins.append({"kind": "new_component", "fault": draw(st.sampled_from(sorted(SCHEMA_FAULTS))), "n": i,
                        "wrap": draw(st.sampled_from(["bare", "in_object"])), "position": draw(st.sampled_from(["end", "start"]))})
        elif kind == "allof_child":
            ins.append({"kind": "allof_child", "host": draw(st.sampled_from(obj_names)), "n": i, "narrow": draw(st.booleans())})
            if ins[-1]["narrow"]:
                hs = dict(ir["schemas"])[ins[-1]["host"]]
                if not any(p_[0] == "zzTags" for p_ in hs["props"]):
                    hs["props"].append(["zzTags", {"k": "array", "items": {"k": draw(st.sampled_from(["str", "num"]))}}, False])
        else:
            ins.append({"kind": "op", "host": draw(st.integers(0, len(ir["ops"]) - 1)), "fault": draw(st.sampled_from(OP_FAULTS)), "n": i})
    # a bad path-item-level parameter that one operation overrides: only the *sibling* operation that inherits it is the host
    if draw(st.integers(0, 3)) == 0:
        oi = draw(st.integers(0, len(ir["ops"]) - 1))
        loc = draw(st.sampled_from(["query", "header", "cookie"]))
        nm = "X-Zz-Shared" if loc == "header" else "zzShared"
        if not any(p["name"] == nm for p in ir["ops"][oi]["params"]):
            ir["ops"][oi]["params"].append({"name": nm, "in": loc, "required": False, "schema": {"k": "str"}, "level": "op"})
            ins.append({"kind": "shadowed_pathlevel", "host": oi, "loc": loc, "name": nm, "n": len(ins),
                        "fault": draw(st.sampled_from(["array_without_items", "dangling_ref", "invalid_default"]))})
    if draw(st.integers(0, 6)) == 0:
        # the same unsupported piece at two or three places: each omitted piece needs a diagnostic of its own, even when the
        # diagnostics read alike (they do not name the piece)
        ins = [{"kind": "twins", "what": draw(st.sampled_from(["alias_schemas", "alias_params", "schemaless_media", "schemaless_media"])),
                "count": draw(st.integers(2, 3)), "n": 0}]
    # dependants of the schema hosts through every kind of reference the generator follows: each is a *good* piece of D that must go
    # away with its host in D' (and be named), never stay behind importing a module that was not generated
    for i, h in enumerate(sorted({x["host"] for x in ins if x["kind"] in ("prop", "allof_child")})):
        if draw(st.integers(0, 2)) == 0:
            continue
        ref = {"k": "ref", "name": h}
        route = draw(st.sampled_from(["ref", "array", "prefix", "prefix_all", "union", "nullable_ref", "addl", "nested", "via_array_alias",
                                      "via_union_alias", "array_of_union"]))
        target = ref
        extra = []
        if route in ("via_array_alias", "via_union_alias"):
            alias = "YyAlias" + _NUM[i % 6]
            extra.append([alias, {"k": "array", "items": ref} if route == "via_array_alias" else
                          {"k": "union", "members": [ref, {"k": "int"}], "how": "oneOf", "_component_union": True}])
            target = {"k": "ref", "name": alias}
        sch = {"ref": target, "via_array_alias": target, "via_union_alias": target,
               "array": {"k": "array", "items": ref},
               "prefix": {"k": "array", "items": {"k": "union", "members": [ref, {"k": "str"}], "how": "anyOf"}, "as_prefix": 1},
               "prefix_all": {"k": "array", "items": {"k": "union", "members": [{"k": "int"}, ref], "how": "anyOf"}, "as_prefix": 2},
               "union": {"k": "union", "members": [ref, {"k": "int"}], "how": draw(st.sampled_from(["anyOf", "oneOf"]))},
               "nullable_ref": {"k": "ref", "name": h, "nullable": True},
               "addl": {"k": "object", "props": [], "addl": ref, "allOf": []},
               "nested": {"k": "object", "props": [["deep", ref, True]], "addl": None, "allOf": []},
               "array_of_union": {"k": "array", "items": {"k": "union", "members": [{"k": "str"}, ref], "how": "oneOf"}}}[route]
        user = ["YyUser" + _NUM[i % 6], {"k": "object", "props": [["route", sch, draw(st.booleans())], ["label", {"k": "str"}, False]], "addl": None, "allOf": []}]
        new = extra + [user]
        if draw(st.booleans()):
            ir["schemas"] = new + ir["schemas"]     # declared before the host: processed first, retried later
        else:
            ir["schemas"] = ir["schemas"] + new
        if route.startswith("prefix"):
            ir["version"] = "3.1.0"
    cfg = {"literal_enums": draw(st.booleans())}
    if draw(st.integers(0, 2)) == 0:
        # some components are renamed through the class_overrides option (class name, module name or both): containment must hold
        # for renamed hosts and renamed dependants alike
        ov = {}
        for nm in draw(st.lists(st.sampled_from([n for n, _ in ir["schemas"]]), min_size=1, max_size=2, unique=True)):
            how = draw(st.sampled_from(["both", "class", "module"]))
            ov[nm] = {**({"class_name": "ZzOv" + nm} if how != "module" else {}),
                      **({"module_name": "zz_ov_" + snake(nm)} if how != "class" else {})}
        cfg["class_overrides"] = ov
    return {"ir": ir, "ins": ins, "cfg": cfg}


def strategy(tier):
    return cases(tier)


def apply(doc, ir, ins) -> tuple[dict, list]:
    """Returns (D', hosts) where hosts are ("schema", name) / ("op", index)."""
    d = copy.deepcopy(doc)
    hosts = []
    schemas = d.setdefault("components", {}).setdefault("schemas", {})
    for x in ins:
        if x["kind"] == "prop":
            target = schemas.get(x["host"])
            if not isinstance(target, dict):
                continue
            holder = target
            if "allOf" in target and "properties" not in target:
                inl = [m for m in target["allOf"] if isinstance(m, dict) and "$ref" not in m]
                if inl:
                    holder = inl[-1]
                else:
                    target["allOf"].append({"type": "object"})
                    holder = target["allOf"][-1]
            name = f"zzBad{x['n']}"
            holder.setdefault("properties", {})[name] = copy.deepcopy(SCHEMA_FAULTS[x["fault"]])
            if x.get("required"):
                holder.setdefault("required", []).append(name)
            hosts.append(("schema", x["host"]))
        elif x["kind"] == "new_component":
            name = f"ZzBadComp{x['n']}"
            bad = copy.deepcopy(SCHEMA_FAULTS[x["fault"]])
            sch = bad if x["wrap"] == "bare" else {"type": "object", "properties": {"inner": bad}}
            if x.get("position") == "start":
                d["components"]["schemas"] = {name: sch, **schemas}
                schemas = d["components"]["schemas"]
            else:
                schemas[name] = sch
            hosts.append(("schema", name))
        elif x["kind"] == "allof_child":
            name = f"ZzBadChild{x['n']}"
            comps = docs.comp_map(ir)
            props = docs._all_props(comps.get(x["host"], {}), comps)
            narrowable = [(pn, ps) for pn, ps, _ in props if ps.get("k") == "array" and not ps.get("nullable") and ps["items"].get("k") in ("str", "num")
                          and not ps["items"].get("nullable")]
            if x.get("narrow") and narrowable:
                # the child narrows an inherited array property (a merge the generator supports) and is broken elsewhere: it goes away,
                # its parent must not change
                pname, ps = narrowable[0]
                items = {"type": "string", "format": "date"} if ps["items"]["k"] == "str" else {"type": "integer"}
                schemas[name] = {"allOf": [{"$ref": "#/components/schemas/" + x["host"]},
                                           {"type": "object", "properties": {pname: {"type": "array", "items": items}, "zzown": {"type": "array"}}}]}
                hosts.append(("schema", name))
                continue
            if props:
                pname, ps, _ = props[0]
                clash = {"type": "object"} if ps.get("k") not in ("object", "ref", "any", "union") else {"type": "boolean"}
                if ps.get("k") in ("any",):
                    clash = {"type": "array"}
                schemas[name] = {"allOf": [{"$ref": "#/components/schemas/" + x["host"]},
                                           {"type": "object", "properties": {pname: clash, "zzown": {"type": "array"}}}]}
            else:
                schemas[name] = {"allOf": [{"$ref": "#/components/schemas/" + x["host"]}, {"type": "object", "properties": {"zzown": {"type": "array"}}}]}
            hosts.append(("schema", name))
        elif x["kind"] == "twins":
            comp = d["components"]
            objs = [nm for nm, sc in ir["schemas"] if sc["k"] == "object"]
            if x["what"] == "alias_schemas" and objs:
                for j in range(x["count"]):
                    schemas[f"ZzAlias{'ABC'[j]}x"] = {"$ref": "#/components/schemas/" + objs[0]}
                    hosts.append(("schema", f"ZzAlias{'ABC'[j]}x"))
            elif x["what"] == "alias_params":
                comp.setdefault("parameters", {})["ZzLimit"] = {"name": "zzlimit", "in": "query", "schema": {"type": "integer"}}
                for j in range(x["count"]):
                    comp["parameters"][f"ZzPar{'ABC'[j]}x"] = {"$ref": "#/components/parameters/ZzLimit"}
                    hosts.append(("component_parameter", f"ZzPar{'ABC'[j]}x"))
            elif x["what"] == "schemaless_media":
                with_body = [i for i, op in enumerate(ir["ops"]) if ((d["paths"][op["path"]][op["method"]].get("requestBody") or {}).get("content"))]
                if not with_body:
                    op0 = ir["ops"][0]
                    d["paths"][op0["path"]][op0["method"]]["requestBody"] = {"content": {"application/json": {"schema": {"type": "string"}}}}
                for i_op, op in enumerate(ir["ops"]):
                    o = d["paths"][op["path"]][op["method"]]
                    content = (o.get("requestBody") or {}).get("content")
                    if isinstance(content, dict) and content:
                        for mt in ["application/x-zz-one", "application/x-zz-two", "application/x-zz-six"][:x["count"]]:
                            content[mt] = {}
                            hosts.append(("media", mt))
                        hosts.append(("op", i_op))
                        break
        elif x["kind"] == "shadowed_pathlevel":
            op = ir["ops"][x["host"]]
            item = d["paths"][op["path"]]
            item.setdefault("parameters", []).append({"name": x["name"], "in": x["loc"], "schema": copy.deepcopy(SCHEMA_FAULTS[x["fault"]])})
            method = next(m for m in ("get", "put", "post", "delete", "patch", "head", "options", "trace") if m not in item)
            sib = {"operationId": f"zzSibling{x['n']}", "responses": {"200": {"description": "ok"}}}
            pathp = [copy.deepcopy(p) for p in item[op["method"]].get("parameters", []) if p.get("in") == "path"]
            if pathp:
                sib["parameters"] = pathp
            item[method] = sib
            hosts.append(("newop", f"zzSibling{x['n']}"))
        else:
            op = ir["ops"][x["host"]]
            o = d["paths"][op["path"]][op["method"]]
            f = x["fault"]
            if f == "optional_path_param":
                pp = [p for p in o.get("parameters", []) if p.get("in") == "path"] or \
                     [p for p in d["paths"][op["path"]].get("parameters", []) if p.get("in") == "path"]
                if not pp:
                    o.setdefault("parameters", []).append({"name": "zzopt", "in": "path", "schema": {"type": "string"}})
                else:
                    pp[0].pop("required", None)
            elif f == "duplicate_param":
                ps = o.setdefault("parameters", [])
                if ps:
                    ps.append(copy.deepcopy(ps[0]))
                else:
                    ps += [{"name": "zzdup", "in": "query", "schema": {"type": "string"}}, {"name": "zzdup", "in": "query", "schema": {"type": "integer"}}]
            elif f == "unparseable_body":
                o["requestBody"] = {"content": {"application/json": {"schema": {"type": "array"}}}}
            elif f == "unsupported_body_only":
                o["requestBody"] = {"content": {"application/xml": {"schema": {"type": "string"}}}}
            elif f == "invalid_status":
                o["responses"]["abc"] = {"description": "bad"}
            elif f == "response_dangling_ref":
                o["responses"]["418"] = {"description": "bad", "content": {"application/json": {"schema": {"$ref": "#/components/schemas/ZzNope"}}}}
            elif f == "param_bad_schema":
                o.setdefault("parameters", []).append({"name": f"zzBadParam{x['n']}", "in": "query", "schema": {"type": "array"}})
            elif f == "param_dangling_ref":
                o.setdefault("parameters", []).append({"$ref": "#/components/parameters/ZzNope"})
            elif f == "header_union_with_array":
                o.setdefault("parameters", []).append({"name": f"X-Zz-Bad{x['n']}", "in": "header",
                                                       "schema": {"oneOf": [{"type": "array", "items": {"type": "string"}}, {"type": "integer"}]}})
            elif f == "cookie_array":
                o.setdefault("parameters", []).append({"name": f"zzBadCookie{x['n']}", "in": "cookie", "schema": {"type": "array", "items": {"type": "string"}}})
            elif f == "param_ref_chain":
                # a component parameter that is itself a reference to another one
                cp = d.setdefault("components", {}).setdefault("parameters", {})
                cp["ZzRealParam"] = {"name": "zzreal", "in": "query", "schema": {"type": "string"}}
                cp[f"ZzAliasParam{'ABC'[x['n'] % 3]}"] = {"$ref": "#/components/parameters/ZzRealParam"}
                o.setdefault("parameters", []).append({"$ref": "#/components/parameters/" + f"ZzAliasParam{'ABC'[x['n'] % 3]}"})
            hosts.append(("op", x["host"]))
    return d, hosts


def affected(ir, hosts):
    comps = docs.comp_map(ir)
    bad_schemas = {h[1] for h in hosts if h[0] == "schema"}
    # reverse reachability over references (any kind of reference: property, item, member, additional, allOf)
    changed = True
    aff = set(bad_schemas)
    while changed:
        changed = False
        for n, s in ir["schemas"]:
            if n in aff:
                continue
            if docs.refs_of(s) & aff:
                aff.add(n)
                changed = True
    aff_ops = {h[1] for h in hosts if h[0] == "op"}
    for i, op in enumerate(ir["ops"]):
        refs = set()
        for p in op["params"]:
            refs |= docs.refs_of(p["schema"])
        for c in (op.get("body") or {}).get("content", []):
            refs |= docs.refs_of(c[1])
        for r in op["responses"]:
            if r[1] is not None and r[1][1] is not None:
                refs |= docs.refs_of(r[1][1])
        if refs & aff:
            aff_ops.add(i)
    return aff, aff_ops


def snake(s: str) -> str:
    s = re.sub(r"[^A-Za-z0-9]+", "_", s)
    s = re.sub(r"(?<=[a-z0-9])(?=[A-Z])", "_", s)
    return s.lower().strip("_")


def owner_of(rel: str, ir, op_modules: dict, overrides: dict | None = None) -> tuple | None:
    parts = rel.replace("\\", "/").split("/")
    if len(parts) >= 2 and parts[0] == "models" and parts[-1] != "__init__.py":
        stem = parts[-1][:-3]
        best = None
        for n, _ in ir["schemas"]:
            ov = (overrides or {}).get(n) or {}
            # a renamed component owns the module it was given, and the modules of inline children named after its new class
            stems = {snake(n)} | ({ov["module_name"]} if ov.get("module_name") else set()) | ({snake(ov["class_name"])} if ov.get("class_name") else set())
            for sn in stems:
                if stem == sn or stem.startswith(sn + "_"):
                    if best is None or len(sn) > len(best[1]):
                        best = (("schema", n), sn)
        for i, op in enumerate(ir["ops"]):
            for cand in op_modules.get(i, []):
                if stem.replace("_", "").startswith(cand.replace("_", "")):  # module and class snake-casing differ ("v_1" vs "v1")
                    if best is None or len(cand) > len(best[1]):
                        best = (("op", i), cand)
        return best[0] if best else None
    if len(parts) >= 3 and parts[0] == "api" and parts[-1] != "__init__.py":
        stem = parts[-1][:-3]
        for i, mods in op_modules.items():
            if stem in mods:
                return ("op", i)
    return None


def run(case, ctx):
    from .. import locate

    ir = case["ir"]
    doc = docs.render(ir)
    base = sut.generate(doc, cfg=case.get("cfg") or {}, pkg_name="pkg")
    ctx.evals()
    try:
        if base.exc is not None or not base.accepted:
            ctx.skip("generator_rejected_or_crashed")
            return
        if base.errors:
            ctx.skip("base_has_diagnostics")
            return
        snap0 = sut.snapshot(base.out)
        op_modules = {}
        for i, op in enumerate(ir["ops"]):
            er = locate.find_endpoint(base, op)
            if er is not None:
                op_modules[i] = [er.module.split(".")[-1]]
    finally:
        env.rm(os.path.dirname(base.out))
    doc2, hosts = apply(doc, ir, case["ins"])
    if not hosts:
        ctx.skip("no_insertion_applied")
        return
    res = sut.generate(doc2, cfg=case.get("cfg") or {}, pkg_name="pkg")
    ctx.evals()
    try:
        if res.exc is not None:
            # D generated cleanly; a crash on D' is the bad piece taking *everything* else down with it
            faults = _fault_kinds(case)
            ctx.label("crash:" + res.exc_site["exc"])
            ctx.violation("bad_piece.contained_not_crash", {"fault": faults[0] if len(faults) == 1 else "several", "exc": res.exc_site["exc"],
                                                            "func": res.exc_site.get("func")}, f"{res.exc!r}"[:300])
            return
        if res.has_error_level:
            ctx.violation("bad_piece.not_whole_document", {"faults": _fault_kinds(case)[:1]}, res.diag_text()[:300])
            return
        aff_s, aff_o = affected(ir, hosts)
        faults = _fault_kinds(case)
        site0 = {"fault": faults[0] if len(faults) == 1 else "several"}
        site0.update(c01.removed_ref_via_union(ir, res.diag_text()))
        if not res.errors:
            ctx.violation("bad_piece.diagnosed", site0, f"no diagnostics for {case['ins']!r}"[:300])
        if case["ins"] and case["ins"][0]["kind"] == "twins":
            n_pieces = sum(1 for h in hosts if h[0] != "op")
            ctx.label("twins:" + case["ins"][0]["what"])
            if len(res.errors) < n_pieces:
                ctx.violation("bad_piece.each_diagnosed", {"what": case["ins"][0]["what"]},
                              f"{n_pieces} omitted pieces, {len(res.errors)} diagnostics: {res.diag_text()[:300]!r}")
        narrowing_parents = {("schema", x_["host"]) for x_ in case["ins"] if x_["kind"] == "allof_child" and x_.get("narrow")}
        if narrowing_parents:
            # ... and whatever is built from such a parent (its other children, operations that use it)
            np_s, np_o = affected(ir, sorted(narrowing_parents))
            narrowing_parents |= {("schema", n_) for n_ in np_s} | {("op", i_) for i_ in np_o}
        snap1 = sut.snapshot(res.out)
        diag = res.diag_text()
        missing_owners = set()
        for rel, data in snap0.items():
            if rel.endswith("/"):
                continue
            own = owner_of(rel, ir, op_modules, (case.get("cfg") or {}).get("class_overrides"))
            if rel.replace("\\", "/") == "models/__init__.py":
                continue
            if own is None:
                # static files: must be untouched
                if snap1.get(rel) != data:
                    ctx.violation("unrelated.static_identical", {**site0, "file": os.path.basename(rel)}, rel)
                continue
            is_aff = (own[0] == "schema" and own[1] in aff_s) or (own[0] == "op" and own[1] in aff_o)
            if rel not in snap1:
                missing_owners.add(own)
                if not is_aff:
                    ctx.violation("unrelated.still_generated", {**site0, "owner": own[0]}, f"{rel} vanished; owner {own}")
            elif snap1[rel] != data and not is_aff:
                ctx.violation("unrelated.identical_bytes", {**site0, "owner": own[0],
                                                            **({"parent_of_broken_narrowing_child": True} if own in narrowing_parents else {})},
                              f"{rel} changed; owner {own}")
        for own in missing_owners:
            ident = own[1] if own[0] == "schema" else f"{ir['ops'][own[1]]['method'].upper()} {ir['ops'][own[1]]['path']}"
            if not sut.names_item(diag, str(ident)):
                ctx.violation("omitted.identified_by_diagnostic", {**site0, "owner": own[0]}, f"{ident} omitted without being named; diag={diag[:200]!r}")
        # models/__init__.py: may only list more or fewer names
        a0 = snap0.get("models/__init__.py", b"").decode("utf-8", "replace")
        a1 = snap1.get("models/__init__.py", b"").decode("utf-8", "replace")
        strip = lambda t: "\n".join(ln for ln in t.splitlines() if not re.match(r'^(from \.\S+ import \S+|    "[^"]+",|__all__ = \(|\))$', ln.rstrip()))  # noqa: E731
        if strip(a0) != strip(a1) and a1:
            ctx.violation("unrelated.index_only_lists_names", site0, a1[:200])
        # nothing that remains refers to anything removed
        if narrowing_parents:
            site0 = {**site0, "parent_of_broken_narrowing_child": True}
        files = pyast.py_files(res.out)
        trees = {}
        compiled = True
        for f in files:
            t, err = pyast.compile_file(f)
            if err is not None:
                compiled = False
                ctx.violation("remaining.compiles", {**site0, "kind": pyast.module_kind(os.path.relpath(f, res.out))}, str(err)[:200])
            else:
                trees[f] = t
        for clause, site, detail in pyast.check_imports(res.out, trees):
            ctx.violation("remaining." + clause, {**site0, **site}, detail)
        if compiled:
            try:
                with sut.Loaded(res.out) as pkg:
                    for m in pkg.all_module_names():
                        try:
                            pkg.mod(m)
                        except BaseException as e:  # noqa: BLE001
                            if behave._is_ctl(e):
                                raise
                            ctx.violation("remaining.imports", {**site0, "exc": type(e).__name__}, f"{m}: {e!r}"[:300])
                            break
            except BaseException as e:  # noqa: BLE001
                if behave._is_ctl(e):
                    raise
                ctx.violation("remaining.imports", {**site0, "exc": type(e).__name__}, repr(e)[:300])
        # non-trivial?
        dependants = (len(aff_s) - len({h[1] for h in hosts if h[0] == "schema"})) > 0 or \
                     any(i not in {h[1] for h in hosts if h[0] == "op"} for i in aff_o)
        cmap = docs.comp_map(ir)
        on_cycle = any(h[0] == "schema" and h[1] in cmap and docs.reaches(cmap, h[1], h[1]) and h[1] in docs.refs_of(cmap[h[1]]) for h in hosts)
        if dependants or len(hosts) >= 2 or on_cycle:
            ctx.nontrivial([doc, case["ins"]])
            ctx.sample = {"insertions": case["ins"], "affected_schemas": sorted(aff_s), "affected_ops": sorted(aff_o),
                          "diagnostics": len(res.errors), "base_files": len(snap0)}
        for f in faults:
            ctx.label("fault:" + f)
        if dependants:
            ctx.label("host_has_dependants")
    finally:
        env.rm(os.path.dirname(res.out))


def _fault_kinds(case):
    out = []
    for x in case["ins"]:
        out.append(x.get("fault") or x["kind"])
    return sorted(set(out))
