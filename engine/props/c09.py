"""C09 - derived names are valid identifiers and never merge silently."""
from __future__ import annotations

import copy
import inspect
import keyword
import os
import re

from hypothesis import strategies as st

from .. import behave, env, locate, pyast, sut
from ..gen import names

ID = "C09"
BUDGET = {"quick": 800, "thorough": 12000}
CHUNK = 0x1000
RULE = ("(i) exhaustive code-point sweep: for every Unicode code point c (0..0x10FFFF minus surrogates) the names c+'a', 'a'+c+'b', "
        "'a'+c through the generator's attribute/parameter/module naming function and its class naming function (field_prefix "
        "'field_' in quick; also 'attr_', 'f', '_', 'é' in thorough): the result must be an identifier and not a keyword; "
        "(ii) Hypothesis name sets (2-6 names from the identifier-hostile pool incl. case/delimiter/prefix/NFKC near-duplicates) "
        "placed together in one scope of a real document - one model's properties, one operation's parameters in one or several "
        "locations, the component schema names, one string enum's values, one tag's operationIds - plus hostile titles for the "
        "package scope: every generated file must compile, every path component must be a non-keyword identifier, and per scope the "
        "number of distinct Python names must equal the number of distinct document names unless a diagnostic was issued; "
        "(iii) complete boundary-pair sweep: each of 36 names at the edge of a renaming rule (leading digit, keyword, builtin, name "
        "reserved by the generated functions or the model template) next to each distinct one of 22 near-duplicate variants of itself "
        "(case, delimiters, trailing/leading underscore, field prefix, _query/_header/_path/_cookie suffix), in both orders, as model "
        "properties, as parameters of one location and of several locations, judged by the same clauses. "
        "An evaluation = one naming call or one generation. Non-trivial = a name needs rewriting or the set has a pair equal after "
        "lower-casing and delimiter stripping. distinct = chunk / (scope, name tuple).")
ASSUMPTIONS = [
    "(i) calls utils.PythonIdentifier / utils.ClassName directly (also imported by the pinned tests); if they disappear the sweep exits 2 "
    "and (ii) still decides the property behaviourally",
    "only field_prefix values that are themselves identifier prefixes are used (a prefix like '1' cannot yield identifiers by construction)",
    "NFKC-equal spellings count as the same Python name (Python's own rule)",
    "quote, backslash, brace and control characters in names are C05's domain and not generated here",
]

_live: set[str] = set()
_tier = "quick"


def configure(live_ids, tier, opts):
    global _live, _tier
    _live = set(live_ids)
    _tier = tier


def sweep(tier):
    out = []
    prefixes = ["field_"] if tier == "quick" else ["field_", "attr_", "f", "_", "é"]
    for pfx in prefixes:
        for start in range(0, 0x110000, CHUNK):
            out.append({"kind": "sweep", "start": start, "prefix": pfx})
    return out + boundary_pairs() + nested_same_class_cases()


SCOPES = ["model_props", "op_params", "op_params_multi", "schema_names", "enum_values", "tag_ops", "package", "allof_props",
          "class_vs_inline"]
IDENT_NEAR = [["createdAt", "created_at"], ["userName", "user_name", "UserName"], ["itemID", "item_id"], ["aB", "a_b"], ["x1", "x_1"],
              ["HTTPCode", "http_code"], ["fooBar", "foo_bar", "FooBar"], ["size", "Size"]]


# names at the edges of the renaming rules: leading digits (need the field prefix), keywords and builtins (need an underscore),
# the names the generated functions reserve for themselves (renamed to <name>_<location>)
BOUNDARY_SEEDS = ["3D", "2XL", "1st", "9", "123abc", "2xx", "class", "None", "True", "def", "import", "match", "client", "url", "self",
                  "kwargs", "body", "headers", "cookies", "params", "response", "int", "str", "list", "type", "id", "json", "data",
                  "files", "content", "timeout", "field", "additional_properties", "d", "cls", "src_dict"]


VARIANTS = [str.upper, str.lower, str.title, lambda s: s.replace("_", "-"), lambda s: s.replace("-", "_"), lambda s: s.replace(" ", "_"),
            lambda s: s + "_", lambda s: "_" + s, lambda s: s.replace("_", " "), lambda s: s.replace("_", ""), lambda s: "field_" + s,
            lambda s: s + "1", lambda s: s.capitalize(), lambda s: s.swapcase(), lambda s: s.replace(".", "_"),
            lambda s: s + "_query", lambda s: s + "_header", lambda s: s + "_path", lambda s: s + "_cookie",
            lambda s: s.lower() + "_query", lambda s: s + "__", lambda s: s[:1].upper() + s[1:]]


def boundary_pairs():
    """Every boundary seed next to every distinct variant of itself, in the three scopes that have a same-name fallback."""
    out = []
    for scope in ("model_props", "op_params", "op_params_multi"):
        for seed_name in BOUNDARY_SEEDS:
            seen = {seed_name}
            for v in VARIANTS:
                other = v(seed_name)
                if other in seen or other == "":
                    continue
                seen.add(other)
                for order in ((seed_name, other), (other, seed_name)):
                    out.append({"kind": "scope", "scope": scope, "names": list(order), "literal": False, "prefix": "field_",
                                "meta": "none", "boundary_pair": True})
    return out


@st.composite
def name_set(draw):
    if draw(st.integers(0, 7)) == 0:
        # three spellings of one identifier, two of which share their *raw* form up to a character that sanitising strips
        w = draw(st.sampled_from(["fooBar", "userName", "itemCount", "maxRetryCount"]))
        trio = [w, re.sub(r"(?<=[a-z0-9])(?=[A-Z])", "_", w).lower(), w + draw(st.sampled_from(["$", "%", "!", "?"]))]
        return list(draw(st.permutations(trio)))
    n = draw(st.integers(2, 6))
    boundary = draw(st.integers(0, 2)) == 0
    if boundary:
        n = min(n, 4)
        base = [draw(st.sampled_from(BOUNDARY_SEEDS))]
    else:
        base = draw(st.lists(names.hostile_name(allow_nonident=False), min_size=1, max_size=n))
    out = list(base)
    # near duplicates of drawn names
    variants = VARIANTS
    while len(out) < n:
        src = draw(st.sampled_from(base))
        out.append(draw(st.sampled_from(variants))(src))
    seen, uniq = set(), []
    for x in out:
        if x not in seen and not any(ch in names.FORBIDDEN for ch in x):
            seen.add(x)
            uniq.append(x)
    return uniq


@st.composite
def scope_case(draw):
    scope = draw(st.sampled_from(SCOPES))
    ns = draw(name_set())
    if scope == "allof_props":
        ns = list(draw(st.sampled_from(IDENT_NEAR)))
        return {"kind": "scope", "scope": scope, "names": ns, "literal": False, "prefix": "field_", "meta": "none",
                "redeclare": draw(st.integers(0, len(ns) - 1)), "first_kind": draw(st.sampled_from(["str", "any", "num"])),
                "order": draw(st.sampled_from(["sibling_first", "sibling_last"]))}
    if scope == "class_vs_inline":
        parent = draw(st.sampled_from(["Order", "order", "Plan", "my_thing"]))
        child = draw(st.sampled_from(["status", "Status", "tier_size", "kind"]))
        joined = draw(st.sampled_from([parent + child.capitalize(), parent + "_" + child, (parent + child).lower(),
                                       parent.capitalize() + "".join(w.capitalize() for w in child.split("_"))]))
        return {"kind": "scope", "scope": scope, "names": [parent, child, joined], "literal": draw(st.booleans()), "prefix": "field_",
                "meta": "none", "inline_kind": draw(st.sampled_from(["enum", "object"])), "joined_first": draw(st.booleans())}
    if scope == "schema_names":
        ns = [n for n in ns if re.fullmatch(r"[A-Za-z0-9._-]+", n)] or ["Alpha", "alpha"]
    if scope in ("op_params", "op_params_multi"):
        ns = [n for n in ns if n != ""] or ["a", "A"]
    return {"kind": "scope", "scope": scope, "names": ns, "literal": draw(st.booleans()),
            "prefix": draw(st.sampled_from(["field_", "field_", "attr_", "f"])),
            "meta": draw(st.sampled_from(["none", "poetry", "setup"]))}


def strategy(tier):
    return scope_case()


# ------------------------------------------------------------------------------------------------ (i) sweep

def _run_sweep(case, ctx):
    try:
        from openapi_python_client.utils import ClassName, PythonIdentifier
    except Exception as e:  # noqa: BLE001
        from ..core import HarnessError

        raise HarnessError(f"naming functions not importable: {e}") from e
    pfx = case["prefix"]
    start = case["start"]
    bad_known = 0
    n = 0
    for cp in range(start, min(start + CHUNK, 0x110000)):
        if 0xD800 <= cp <= 0xDFFF:
            continue
        c = chr(cp)
        for pos, nm in (("lead", c + "a"), ("inner", "a" + c + "b"), ("trail", "a" + c)):
            for fn_name, fn in (("identifier", lambda v: PythonIdentifier(v, pfx)), ("class", lambda v: ClassName(v, pfx))):
                n += 1
                try:
                    r = fn(nm)
                    ok = str(r).isidentifier() and not keyword.iskeyword(str(r))
                    detail = repr(str(r))
                except BaseException as e:  # noqa: BLE001
                    if behave._is_ctl(e):
                        raise
                    ok = False
                    detail = repr(e)
                if not ok:
                    cls = "nonident_wordchar" if names.is_nonident_wordchar(c) else "other"
                    if cls == "other" and fn_name == "class" and pos == "lead" and not any(ch.isalnum() for ch in pfx) \
                            and ("a" + c).isidentifier() and not c.isidentifier():
                        # a character that may continue but not start an identifier (digits, combining marks) relies on the
                        # prefix; a prefix made of delimiters only is stripped again by Pascal-casing (KF-C09-11)
                        cls = "needs_prefix_but_prefix_is_delimiters_only"
                    if cls == "nonident_wordchar":
                        bad_known += 1
                    ctx.violation("sweep.valid_identifier", {"class": cls, **({"cp": f"U+{cp:04X}", "pos": pos, "fn": fn_name} if cls == "other" else {})},
                                  f"U+{cp:04X} {pos} {fn_name}: {nm!r} -> {detail}")
    ctx.evals(n)
    ctx.nontrivial(["sweep", start, pfx])
    ctx.sample = {"kind": "sweep", "range": [f"U+{start:04X}", f"U+{min(start + CHUNK, 0x110000) - 1:04X}"], "prefix": pfx, "calls": n,
                  "in_known_class": bad_known}
    # de-duplicate: one violation per (class) per chunk is enough for the known class
    seen = set()
    kept = []
    for v in ctx.violations:
        key = (v["clause"], tuple(sorted(v["site"].items())))
        if key in seen:
            continue
        seen.add(key)
        kept.append(v)
    ctx.violations[:] = kept


# ------------------------------------------------------------------------------------------------ (ii) scopes

def _doc(case):
    ns = case["names"]
    scope = case["scope"]
    schemas, paths, title = {}, {}, "Verif API"
    if scope == "model_props":
        schemas["Holder"] = {"type": "object", "properties": {n: {"type": "string"} for n in ns}}
    elif scope in ("op_params", "op_params_multi"):
        locs = ["query"] * len(ns) if scope == "op_params" else [["query", "header", "cookie"][i % 3] for i in range(len(ns))]
        ps = []
        for n, loc in zip(ns, locs):
            if loc == "header" and (not names.HEADER_TOKEN_RE.match(n) or n.lower() in ("host", "content-length", "content-type", "accept")):
                loc = "query"
            ps.append({"name": n, "in": loc, "schema": {"type": "string"}})
        paths["/items"] = {"get": {"operationId": "fetchThing", "parameters": ps, "responses": {"200": {"description": "ok"}}}}
    elif scope == "schema_names":
        for i, n in enumerate(ns):
            schemas[n] = {"type": "object", "description": f"MARKzq{i}qz", "properties": {"p": {"type": "string"}}}
    elif scope == "enum_values":
        schemas["Holder"] = {"type": "object", "properties": {"ee": {"type": "string", "enum": list(ns)}}}
    elif scope == "tag_ops":
        for i, n in enumerate(ns):
            paths[f"/p{i}"] = {"get": {"operationId": n, "tags": ["thetag"], "summary": f"MARKzq{i}qz", "responses": {"200": {"description": "ok"}}}}
    elif scope == "package":
        title = ns[0]
        schemas["Holder"] = {"type": "object", "properties": {"p": {"type": "string"}}}
    elif scope == "allof_props":
        first = {"str": {"type": "string"}, "any": {}, "num": {"type": "number"}}[case.get("first_kind", "str")]
        second = {"str": {"type": "string", "format": "date"}, "any": {"type": "string"}, "num": {"type": "integer"}}[case.get("first_kind", "str")]
        re_name = ns[case.get("redeclare", 0) % len(ns)]
        others = [n for n in ns if n != re_name]
        order = ([re_name] + others) if case.get("order") == "sibling_last" else (others + [re_name])
        schemas["Base"] = {"type": "object", "properties": {n: copy.deepcopy(first) for n in order}}
        schemas["Holder"] = {"allOf": [{"$ref": "#/components/schemas/Base"}, {"type": "object", "properties": {re_name: second}}]}
    elif scope == "class_vs_inline":
        parent, child, joined = ns
        inline = {"type": "string", "enum": ["mkin1", "mkin2"]} if case.get("inline_kind") == "enum" else \
            {"type": "object", "description": "MARKzqINLINEqz", "properties": {"deep": {"type": "integer"}}}
        a = {parent: {"type": "object", "description": "MARKzqPARENTqz", "properties": {child: inline}}}
        b = {joined: {"type": "object", "description": "MARKzqJOINEDqz", "properties": {"p": {"type": "string"}}}}
        schemas.update({**b, **a} if case.get("joined_first") else {**a, **b})
    elif scope == "nested_same_class":
        # an inline object whose derived class name equals that of the *inline* object holding it: the property name adds nothing
        # ('-', '_', '$' ...) or, with title-based naming, both carry one title
        c = ns[0]
        child = {"type": "string", "enum": ["mkin1", "mkin2"]} if case.get("inline_kind") == "enum" else \
            {"type": "object", "description": "MARKzqCHILDqz", "properties": {"deep": {"type": "integer"}}}
        mid = {"type": "object", "description": "MARKzqMIDqz", "properties": {c: child, "keep": {"type": "string"}}}
        if case.get("by_title"):
            mid["title"] = "Shared Title"
            child["title"] = "Shared Title"
        shape = case.get("shape", "component")
        if shape == "component":
            schemas["Outer"] = {"type": "object", "properties": {"mid": mid}}
        elif shape == "body":
            paths["/things"] = {"post": {"operationId": "sendThing", "requestBody": {"content": {"application/json": {"schema": mid}}},
                                         "responses": {"200": {"description": "ok"}}}}
        else:
            paths["/things"] = {"get": {"operationId": "readThing", "responses": {"200": {"description": "ok", "content": {"application/json": {"schema": mid}}}}}}
    return {"openapi": "3.0.3", "info": {"title": title, "version": "1"}, "paths": paths, "components": {"schemas": schemas}}


def nested_same_class_cases():
    out = []
    for shape in ("component", "body", "response"):
        for kind in ("object", "enum"):
            for c in ("-", "_", "$", "--", ".", " ", "__", "-_-"):
                out.append({"kind": "scope", "scope": "nested_same_class", "names": [c], "shape": shape, "inline_kind": kind, "literal": False,
                            "prefix": "field_", "meta": "none"})
            for c in ("kid", "Shared Title"):
                out.append({"kind": "scope", "scope": "nested_same_class", "names": [c], "shape": shape, "inline_kind": kind, "literal": False,
                            "prefix": "field_", "meta": "none", "by_title": True, "cfg": {"use_path_prefixes_for_title_model_names": False}})
    return out


def _flags(ns, prefix="field_"):
    f = {}
    normed = [names.norm(n) for n in ns]
    np_ = names.norm(prefix)
    # a name that already starts with the field prefix coincides with the prefixed form of its remainder ('2xx' / 'field_2xx')
    stripped = [x[len(np_):] if np_ and x.startswith(np_) and len(x) > len(np_) else x for x in normed]
    if len(set(normed)) < len(normed) or len(set(stripped)) < len(stripped):
        f["near_duplicates"] = True
    import collections as _c

    if any(v >= 3 for v in _c.Counter(stripped).values()):
        f["three_names_one_identifier"] = True   # the same-name fallback compares a newcomer with one earlier name only
    if any(names.norm(n) == "" for n in ns):
        f["empty_after_sanitising"] = True
    if any(re.search(r"[ .\-]", n) for n in ns):
        f["has_delimiter_chars"] = True
    if any(not names_nfkc_stable(n) for n in ns):
        f["nfkc_unstable"] = True
    from .c01 import TEMPLATE_IMPORTS

    if any(n in TEMPLATE_IMPORTS for n in ns):
        f["spelled_like_template_name"] = True   # e.g. 'Union' next to 'UNION': the raw-spelling fallback emits 'Union' itself
    if any(_snakeish(n) == "additional_properties" for n in ns):
        f["captures_template_attribute"] = True   # the model template's own attribute of that name replaces the property (C18's root cause)
    if any(re.sub(r"[^\w]", "", n).lstrip("_")[:1].isdigit() for n in ns):
        f["leading_digit"] = True   # after dropping the punctuation / underscores that sanitising strips
    return f


def _snakeish(n: str) -> str:
    """Independent approximation of snake-casing, used for risk flags only."""
    n = re.sub(r"(?<=[a-z0-9])(?=[A-Z])", "_", n)
    return re.sub(r"[^0-9a-zA-Z]+", "_", n).strip("_").lower()


def names_nfkc_stable(s: str) -> bool:
    import unicodedata

    return all(unicodedata.normalize("NFKC", v) == v for v in (s, s.lower(), s.upper(), s.title()))


def _run_scope(case, ctx):
    ns = case["names"]
    scope = case["scope"]
    doc = _doc(case)
    res = sut.generate(doc, cfg={"literal_enums": bool(case.get("literal")), "field_prefix": case.get("prefix", "field_"), **(case.get("cfg") or {})},
                       meta=case.get("meta", "none"), pkg_name=None)
    ctx.evals()
    flags = _flags(ns, case.get("prefix", "field_"))
    site = {"scope": scope, **flags}
    try:
        if res.exc is not None:
            ctx.skip("generator_crashed")
            ctx.label("crash:" + res.exc_site["exc"])
            return
        if not res.accepted:
            ctx.skip("rejected")
            return
        diag = res.diag_text()
        rewritten = any(not (n.isidentifier() and n == n.lower()) for n in ns)
        if rewritten or flags.get("near_duplicates"):
            ctx.nontrivial([scope, ns, case.get("prefix")])
            ctx.sample = {"scope": scope, "names": ns, "prefix": case.get("prefix")}
        ctx.label("scope:" + scope)
        # (1) every file compiles
        ok = True
        for f in pyast.py_files(res.out):
            _, err = pyast.compile_file(f)
            if err is not None:
                ok = False
                rel = os.path.relpath(f, res.out)
                ctx.violation("names.valid_in_source", {**site, "kind": pyast.module_kind(rel)}, f"{rel}: {err}"[:300])
        # (2) path components
        root = res.package_dir or res.out
        for dp, dns, fns in os.walk(root):
            dns[:] = [d for d in dns if d not in ("__pycache__", ".ruff_cache")]
            for comp in dns + [f[:-3] for f in fns if f.endswith(".py")]:
                if not (comp.isidentifier() and not keyword.iskeyword(comp)):
                    ctx.violation("names.valid_path_component", site, os.path.join(os.path.relpath(dp, root), comp))
        if scope == "package" and case.get("meta", "none") != "none":
            pkgname = os.path.basename(res.package_dir or "")
            if not (pkgname.isidentifier() and not keyword.iskeyword(pkgname)):
                ctx.violation("names.valid_package_name", {**site}, f"title {ns[0]!r} -> package directory {pkgname!r}")
        if not ok:
            return
        # (3) per-scope counts
        try:
            pkg = sut.Loaded(res.package_dir)
            pkg.models
        except BaseException as e:  # noqa: BLE001
            if behave._is_ctl(e):
                raise
            ctx.violation("names.package_imports", {**site, "exc": type(e).__name__}, repr(e)[:300])
            return
        with pkg:
            distinct_doc = len(set(ns))
            if scope == "model_props":
                H = getattr(pkg.models, "Holder", None)
                if H is None:
                    if not diag:
                        ctx.violation("scope.count_or_diagnostic", site, "Holder missing, no diagnostic")
                else:
                    n_py = len(inspect.signature(H).parameters)
                    if n_py != distinct_doc:
                        ctx.violation("scope.count_or_diagnostic", site, f"{distinct_doc} property names {ns!r} -> {n_py} attributes {list(inspect.signature(H).parameters)}")
                    else:
                        # the wire names survive: encoding an instance with every property set uses exactly the document's spellings
                        inst = {n: "v" for n in ns}
                        stage, r = behave._attempt(H, inst)
                        if stage is None and set(r[1]) != set(ns):
                            ctx.violation("scope.wire_names_kept", site, f"{sorted(r[1])} vs {sorted(ns)}")
            elif scope in ("op_params", "op_params_multi"):
                er = locate.find_endpoint(res, {"method": "get", "path": "/items"})
                if er is None:
                    if "GET /items" not in diag:
                        ctx.violation("scope.count_or_diagnostic", site, "endpoint missing, no diagnostic names it")
                else:
                    mod = pkg.mod(er.module)
                    ps = [p for p in inspect.signature(mod.sync_detailed).parameters if p != "client"]
                    if len(ps) != len(ns):
                        ctx.violation("scope.count_or_diagnostic", site, f"{len(ns)} parameters {ns!r} -> {ps}")
            elif scope == "schema_names":
                src = {os.path.relpath(f, res.out): open(f, encoding="utf-8").read() for f in pyast.py_files(os.path.join(res.package_dir, "models"))}
                for i, n in enumerate(ns):
                    if not any(f"MARKzq{i}qz" in v for v in src.values()):
                        if n not in diag:
                            ctx.violation("scope.count_or_diagnostic", site, f"schema {n!r} of {ns!r} neither generated nor named")
            elif scope == "enum_values":
                H = getattr(pkg.models, "Holder", None)
                if H is None:
                    if not diag:
                        ctx.violation("scope.count_or_diagnostic", site, "Holder missing, no diagnostic")
                else:
                    accepted = 0
                    for v in ns:
                        stage, r = behave._attempt(H, {"ee": v})
                        if stage is None and r[1].get("ee") == v:
                            accepted += 1
                    if accepted != len(ns):
                        ctx.violation("scope.count_or_diagnostic", site, f"only {accepted} of the values {ns!r} are distinct members")
            elif scope == "allof_props":
                H = getattr(pkg.models, "Holder", None)
                if H is None:
                    if "Holder" not in diag:
                        ctx.violation("scope.count_or_diagnostic", site, "composed model missing, no diagnostic names it")
                else:
                    n_py = len(inspect.signature(H).parameters)
                    if n_py != distinct_doc:
                        ctx.violation("scope.count_or_diagnostic", site, f"{distinct_doc} property names {ns!r} -> {list(inspect.signature(H).parameters)}")
            elif scope == "class_vs_inline":
                src = "\n".join(open(f, encoding="utf-8").read() for f in pyast.py_files(os.path.join(res.package_dir, "models")))
                parent, child, joined = ns
                for what, mark, nm in (("parent", "MARKzqPARENTqz", parent), ("joined", "MARKzqJOINEDqz", joined)):
                    if mark not in src and nm not in diag:
                        ctx.violation("scope.count_or_diagnostic", {**site, "lost": what, "inline": case.get("inline_kind")},
                                      f"component {nm!r} neither generated nor named (names {ns!r})")
            elif scope == "nested_same_class":
                src = "\n".join(open(f, encoding="utf-8").read() for f in pyast.py_files(os.path.join(res.package_dir, "models")))
                want = ["MARKzqMIDqz"] + (["MARKzqCHILDqz"] if case.get("inline_kind") != "enum" else ["mkin1"])
                lost = [m for m in want if m not in src]
                if lost and not diag.strip():
                    ctx.violation("scope.count_or_diagnostic", {"scope": scope, "shape": case.get("shape"), "inline": case.get("inline_kind"),
                                                                "by_title": bool(case.get("by_title"))},
                                  f"two schemas deriving one class name: {lost} not generated, no diagnostic (property name {ns[0]!r})")
            elif scope == "tag_ops":
                tagdir = os.path.join(res.package_dir, "api", "thetag")
                src = {f: open(f, encoding="utf-8").read() for f in pyast.py_files(tagdir)} if os.path.isdir(tagdir) else {}
                for i, n in enumerate(ns):
                    if not any(f"MARKzq{i}qz" in v for v in src.values()):
                        if f"GET /p{i}" not in diag:
                            ctx.violation("scope.count_or_diagnostic", site, f"operation {n!r} of {ns!r} neither generated nor named")
    finally:
        env.rm(os.path.dirname(res.out))


def run(case, ctx):
    if case["kind"] == "sweep":
        _run_sweep(case, ctx)
    else:
        _run_scope(case, ctx)
