"""C10 - absent, null and present stay three distinct states."""
from __future__ import annotations

import copy
import inspect
import itertools
import typing

from hypothesis import strategies as st

from .. import behave, env, http, locate, sut
from ..gen.instances import json_eq

ID = "C10"
BUDGET = {"quick": 160, "thorough": 3000}
EXHAUSTIVE = True
PACK = 12
RULE = ("exhaustive matrix of cells = kind (string, date, date-time, uuid, integer, number, boolean, str-enum, int-enum, const, "
        "array of scalar, array of model, model ref, union of scalars, union with model, any, three single-member unions) x required x nullable notation "
        "(none / 3.0 nullable / 3.1 type list / null union member / null enum member, where applicable) x default (none / valid) "
        "x position (model property, query, header, cookie parameter) x enum style x embedding (model cells: declared directly / in "
        "a model the generator processes twice / inherited from an allOf parent / declared untyped+required by a parent and refined "
        "by the child / declared directly while another schema composes the model and promotes its optional properties to required; "
        "parameter cells: on the operation / once at path-item level for two operations / once under "
        "components.parameters referenced by two operations - both operations are checked), packed 12 cells per document; plus "
        "Hypothesis-drawn random packs of cells (mixing neighbours). Every cell is non-trivial; distinct = the cell tuple; an "
        "evaluation = one cell checked (signature, absent, null, type, present clauses).")
ASSUMPTIONS = [
    "nullable is the schema's JSON-Schema meaning computed from the cell (an enum admits null only via a null member; any always admits null)",
    "python names p<i>/q<i> are identifiers by construction, so attribute lookup needs no locator",
    "for parameters only signature, annotation, omitted-not-sent and given-is-sent are checked (null has no wire form in a query)",
    "header/cookie cells exist only for kinds the generator accepts there; cookie cells are not *called* for non-string kinds (C03 finding)",
]

_live: set[str] = set()


def configure(live_ids, tier, opts):
    global _live
    _live = set(live_ids)


U1 = "12345678-1234-5678-1234-567812345678"
SAMPLE = {"str": "x", "date": "2020-01-02", "datetime": "2020-01-02T03:04:05+00:00", "uuid": U1, "int": 5, "num": 1.5, "bool": True,
          "enum_str": "aa", "enum_int": 1, "const": "fixed", "array_str": ["a", "b"], "array_model": [{"a": "x"}], "model": {"a": "x"},
          "union_scalar": 3, "union_model": {"a": "x"}, "any": {"k": 1}, "array_date": ["2020-01-02"],
          "one_int": 5, "one_datetime": "2020-01-02T03:04:05+00:00", "one_typelist": "x"}
FALSY = {"str": "", "int": 0, "num": 0.0, "bool": False, "array_str": [], "array_model": [], "array_date": [], "any": {},
         "union_scalar": 0, "model": {}, "union_model": 0, "one_int": 0, "one_typelist": ""}
BASE = {
    "str": {"type": "string"}, "date": {"type": "string", "format": "date"}, "datetime": {"type": "string", "format": "date-time"},
    "uuid": {"type": "string", "format": "uuid"}, "int": {"type": "integer"}, "num": {"type": "number"}, "bool": {"type": "boolean"},
    "enum_str": {"type": "string", "enum": ["aa", "bb"]}, "enum_int": {"type": "integer", "enum": [1, 2]}, "const": {"const": "fixed"},
    "array_str": {"type": "array", "items": {"type": "string"}},
    "array_date": {"type": "array", "items": {"type": "string", "format": "date"}},
    "array_model": {"type": "array", "items": {"$ref": "#/components/schemas/Leaf"}},
    "model": {"$ref": "#/components/schemas/Leaf"},
    "union_scalar": {"anyOf": [{"type": "integer"}, {"type": "string"}]},
    "union_model": {"anyOf": [{"$ref": "#/components/schemas/Leaf"}, {"type": "integer"}]},
    "any": {},
    # unions with a single member (a composition keyword or a 3.1 type list holding one entry): the member's schema, nothing else
    "one_int": {"anyOf": [{"type": "integer"}]}, "one_datetime": {"oneOf": [{"type": "string", "format": "date-time"}]},
    "one_typelist": {"type": ["string"]},
}
TYPED = {"str", "date", "datetime", "uuid", "int", "num", "bool", "array_str", "array_date", "array_model"}
DEFAULTABLE = {"str", "date", "datetime", "uuid", "int", "num", "bool", "enum_str", "enum_int", "const", "one_int", "one_datetime", "one_typelist"}
PARAM_OK = {"query": {"str", "date", "datetime", "uuid", "int", "num", "bool", "enum_str", "enum_int", "array_str", "union_scalar",
                      "one_int", "one_datetime", "one_typelist"},
            "header": {"str", "int", "num", "bool", "enum_str", "enum_int"},
            "cookie": {"str", "enum_str", "int", "bool", "date"}}


def notations(kind):
    if kind == "any":
        return ["none"]
    out = ["none", "nullmember"]
    if kind in TYPED:
        out += ["nullable", "typelist"]
    if kind in ("enum_str", "enum_int"):
        out += ["enumnull"]
    if kind in ("model", "union_scalar", "union_model"):
        out += ["nullable"]
    return out


def all_cells():
    cells = []
    for kind in BASE:
        for req in (True, False):
            for nn in notations(kind):
                for dflt in ((False, True) if kind in DEFAULTABLE else (False,)):
                    for lit in ((False, True) if kind.startswith("enum") else (False,)):
                        cells.append({"pos": "model", "kind": kind, "required": req, "nullable": nn, "default": dflt, "literal": lit})
    for loc, kinds in PARAM_OK.items():
        for kind in sorted(kinds):
            for req in (True, False):
                for nn in ("none", "nullable", "typelist", "enumnull"):
                    if nn == "enumnull":
                        if not kind.startswith("enum") or loc != "query":
                            continue
                    elif nn != "none" and kind not in TYPED:
                        continue
                    for dflt in ((False, True) if kind in DEFAULTABLE else (False,)):
                        cells.append({"pos": loc, "kind": kind, "required": req, "nullable": nn, "default": dflt, "literal": False})
    return cells


def is_v31(cell):
    return cell["nullable"] == "typelist" or cell["kind"] == "one_typelist"


MODEL_EMBED = ("plain", "reparsed", "inherited", "refined", "promoted_elsewhere")
PARAM_EMBED = ("op", "pathlevel", "component")


def pack(cells):
    groups: dict[tuple, list] = {}
    for c in cells:
        groups.setdefault((c["pos"] == "model", is_v31(c), c["literal"]), []).append(c)
    out = []
    for key, lst in groups.items():
        for i in range(0, len(lst), PACK):
            for embed in (MODEL_EMBED if key[0] else PARAM_EMBED):
                out.append({"cells": lst[i:i + PACK], "embed": embed})
    return out


def sweep(tier):
    return pack(all_cells())


@st.composite
def random_pack(draw):
    cells = all_cells()
    model = draw(st.booleans())
    v31 = draw(st.booleans())
    lit = draw(st.booleans())
    pool = [c for c in cells if (c["pos"] == "model") == model and (not is_v31(c) or v31) and c["literal"] in (False, lit)
            and not (not v31 and c["nullable"] == "typelist")]
    n = draw(st.integers(2, PACK))
    idx = draw(st.lists(st.integers(0, len(pool) - 1), min_size=n, max_size=n, unique=True))
    chosen = [dict(pool[i], literal=lit if pool[i]["kind"].startswith("enum") else False) for i in idx]
    if not model:
        chosen = [dict(c, literal=False) for c in chosen]
    embed = draw(st.sampled_from(MODEL_EMBED if model else PARAM_EMBED))
    return {"cells": chosen, "v31": v31, "embed": embed}


def strategy(tier):
    return random_pack()


def cell_schema(cell, v31):
    kind, nn = cell["kind"], cell["nullable"]
    s = copy.deepcopy(BASE[kind])
    if nn == "nullable":
        if "$ref" in s:
            s = {"allOf": [s], "nullable": True}
        else:
            s["nullable"] = True
    elif nn == "typelist":
        s["type"] = [s["type"], "null"]
    elif nn == "nullmember":
        s = {"oneOf": [s, {"type": "null"}]} if v31 or True else s
    elif nn == "enumnull":
        s["enum"] = s["enum"] + [None]
    if cell["default"]:
        s["default"] = SAMPLE[kind]
        if "$ref" in s:
            s = {"allOf": [s]}
    return s


def admits(ann, pred, depth=0) -> bool:
    if depth > 6:
        return False
    if pred(ann):
        return True
    return any(admits(a, pred, depth + 1) for a in typing.get_args(ann))


def run(case, ctx):
    cells = case["cells"]
    v31 = bool(case.get("v31")) or any(is_v31(c) for c in cells)
    literal = any(c.get("literal") for c in cells)
    model_cells = [c for c in cells if c["pos"] == "model"]
    param_cells = [c for c in cells if c["pos"] != "model"]
    comps = {"Leaf": {"type": "object", "properties": {"a": {"type": "string"}}}}
    paths = {}
    embed = case.get("embed") or ("plain" if model_cells else "op")
    ctx.label("embed:" + embed)
    extra_components = {}
    ops = [{"method": "get", "path": "/items"}]
    if model_cells:
        props = {f"p{i}": cell_schema(c, v31) for i, c in enumerate(model_cells)}
        req = [f"p{i}" for i, c in enumerate(model_cells) if c["required"]]
        holder = {"type": "object", "properties": props, **({"required": req} if req else {})}
        if embed == "inherited":
            # the cells are declared by a parent; the class under test only composes it
            comps["HolderBase"] = holder
            comps["Holder"] = {"allOf": [{"$ref": "#/components/schemas/HolderBase"},
                                         {"type": "object", "properties": {"zzown": {"type": "string"}}}]}
        elif embed == "refined":
            # a parent declares every property untyped (and says which are required); the child's inline member re-declares
            # each with the cell's schema without repeating 'required': the conjunction keeps both facts
            comps["HolderBase"] = {"type": "object", "properties": {k: {} for k in props}, **({"required": req} if req else {})}
            comps["Holder"] = {"allOf": [{"$ref": "#/components/schemas/HolderBase"}, {"type": "object", "properties": props}]}
        elif embed == "promoted_elsewhere":
            # another schema composes Holder and lists Holder's optional properties as required: that is a fact about the other
            # schema only (declared before and after Holder in turn)
            optional = [f"p{i}" for i, c in enumerate(model_cells) if not c["required"]]
            promoter = {"allOf": [{"$ref": "#/components/schemas/Holder"}, {"type": "object", **({"required": optional} if optional else {})}]}
            if len(model_cells) % 2:
                comps["ZzPromoter"] = promoter
                comps["Holder"] = holder
            else:
                comps["Holder"] = holder
                comps["ZzPromoter"] = promoter
        elif embed == "reparsed":
            # an inline composition of a component declared *later* makes the generator process Holder a second time
            holder["properties"]["zzlate"] = {"allOf": [{"$ref": "#/components/schemas/ZzLate"}],
                                              "type": "object", "properties": {"zzx": {"type": "string"}}}
            comps["Holder"] = holder
            comps["ZzLate"] = {"type": "object", "properties": {"zzy": {"type": "string"}}}
        else:
            comps["Holder"] = holder
    if param_cells:
        ps = []
        for i, c in enumerate(param_cells):
            name = f"X-Q{i}" if c["pos"] == "header" else f"q{i}"
            d = {"name": name, "in": c["pos"], "schema": cell_schema(c, v31)}
            if c["required"]:
                d["required"] = True
            ps.append(d)
        ok = {"200": {"description": "ok"}}
        if embed == "pathlevel":
            # one declaration shared by two operations
            paths = {"/items": {"parameters": ps, "get": {"operationId": "fetchThing", "responses": ok},
                                "post": {"operationId": "storeThing", "responses": ok}}}
            ops.append({"method": "post", "path": "/items"})
        elif embed == "component":
            extra_components["parameters"] = {f"Par{i}": p for i, p in enumerate(ps)}
            refs = [{"$ref": f"#/components/parameters/Par{i}"} for i in range(len(ps))]
            paths = {"/items": {"get": {"operationId": "fetchThing", "parameters": refs, "responses": ok},
                                "post": {"operationId": "storeThing", "parameters": copy.deepcopy(refs), "responses": ok}}}
            ops.append({"method": "post", "path": "/items"})
        else:
            paths = {"/items": {"get": {"operationId": "fetchThing", "parameters": ps, "responses": ok}}}
    doc = {"openapi": "3.1.0" if v31 else "3.0.3", "info": {"title": "t", "version": "1"}, "paths": paths,
           "components": {"schemas": comps, **extra_components}}
    res = sut.generate(doc, cfg={"literal_enums": literal})
    try:
        if res.exc is not None or not res.accepted:
            ctx.skip("generator_rejected_or_crashed")
            return
        try:
            pkg = sut.Loaded(res.package_dir)
            pkg.models
        except BaseException as e:  # noqa: BLE001
            if behave._is_ctl(e):
                raise
            # every cell is in the property's domain: a package that cannot be imported keeps none of the three states observable
            ctx.violation("package.imports", {"pos": "model" if model_cells else "params", "exc": type(e).__name__,
                                              "required_with_default": any(c["required"] and c["default"] for c in cells)}, repr(e)[:300])
            return
        with pkg:
            if model_cells:
                _check_model(ctx, pkg, model_cells, res, embed)
            if param_cells:
                for n_op, op in enumerate(ops):
                    _check_params(ctx, pkg, res, param_cells, op, embed, n_op)
        ctx.sample = {"cells": cells[:3], "first_schema": cell_schema(cells[0], v31)}
    finally:
        env.rm(res.out)


def _site(c, embed=None, n_op=0):
    d = {"pos": c["pos"], "kind": c["kind"], "required": c["required"], "nullable": c["nullable"], "default": c["default"],
         "literal": bool(c.get("literal"))}
    if embed not in (None, "plain", "op"):
        d["embed"] = embed
        if n_op:
            d["second_operation"] = True
    return d


def _check_model(ctx, pkg, cells, res, embed="plain"):
    H = getattr(pkg.models, "Holder", None)
    if H is None:
        ctx.label("holder_missing")
        if not res.errors:
            ctx.violation("model.generated", {"pos": "model"}, "Holder missing without diagnostic")
        return
    UNSET, Unset = pkg.types.UNSET, pkg.types.Unset
    sig = inspect.signature(H)
    try:
        import attrs

        ftypes = {f.name: f.type for f in attrs.fields(H)}
    except Exception:
        ftypes = {}
    base = {f"p{i}": SAMPLE[c["kind"]] for i, c in enumerate(cells) if c["required"]}
    for i, c in enumerate(cells):
        name = f"p{i}"
        site = _site(c, embed)
        ctx.evals()
        ctx.nontrivial([c])
        nullable = c["nullable"] != "none" or c["kind"] == "any"
        if name not in sig.parameters:
            ctx.violation("signature.has_parameter", site, name)
            continue
        par = sig.parameters[name]
        has_default = par.default is not inspect.Parameter.empty
        # --- signature
        if c["required"] and not c["default"]:
            if has_default:
                ctx.violation("signature.required_is_mandatory", site, f"default {par.default!r}")
        else:
            if not has_default:
                ctx.violation("signature.optional_has_default", site)
            elif not c["default"] and par.default is not UNSET:
                ctx.violation("signature.optional_defaults_to_unset", site, repr(par.default))
        # --- type
        ann = ftypes.get(name, par.annotation)
        if c["kind"] != "any" and ann is not typing.Any:
            a_none = admits(ann, lambda a: a is type(None) or a is None)
            if a_none != nullable:
                ctx.violation("type.none_iff_nullable", site, f"annotation {ann!r}")
            a_unset = admits(ann, lambda a: a is Unset)
            if a_unset != (not c["required"]):
                ctx.violation("type.unset_iff_optional", site, f"annotation {ann!r}")
        # --- absent
        inst = dict(base)
        inst.pop(name, None)
        try:
            o = H.from_dict(copy.deepcopy(inst))
            if c["required"]:
                ctx.violation("absent.required_missing_raises", site, "decoded without the required key")
            else:
                got = getattr(o, name)
                if got is not UNSET:
                    ctx.violation("absent.reads_unset", site, repr(got)[:100])
                enc = o.to_dict()
                if name in enc:
                    ctx.violation("absent.not_encoded", site, repr(enc.get(name))[:100])
        except BaseException as e:  # noqa: BLE001
            if behave._is_ctl(e):
                raise
            if not c["required"]:
                ctx.violation("absent.decodes", {**site, "exc": type(e).__name__}, repr(e)[:200])
        # --- null
        if nullable:
            inst = dict(base)
            inst[name] = None
            try:
                o = H.from_dict(copy.deepcopy(inst))
                got = getattr(o, name)
                if got is not None:
                    ctx.violation("null.decodes_to_none", site, repr(got)[:100])
                enc = o.to_dict()
                if name not in enc or enc[name] is not None:
                    ctx.violation("null.encodes_null", site, repr(enc)[:150])
            except BaseException as e:  # noqa: BLE001
                if behave._is_ctl(e):
                    raise
                ctx.violation("null.accepted", {**site, "exc": type(e).__name__}, repr(e)[:200])
        # --- present
        inst = dict(base)
        inst[name] = SAMPLE[c["kind"]]
        try:
            o = H.from_dict(copy.deepcopy(inst))
            got = getattr(o, name)
            if got is UNSET or got is None:
                ctx.violation("present.distinct", site, repr(got))
            enc = o.to_dict()
            if name not in enc or not json_eq(enc[name], SAMPLE[c["kind"]]):
                ctx.violation("present.roundtrip", site, f"{enc.get(name)!r} vs {SAMPLE[c['kind']]!r}")
        except BaseException as e:  # noqa: BLE001
            if behave._is_ctl(e):
                raise
            ctx.violation("present.accepted", {**site, "exc": type(e).__name__}, repr(e)[:200])
        # --- a present but falsy value (0, False, "", [], {}) is still present
        if c["kind"] in FALSY:
            inst = dict(base)
            inst[name] = FALSY[c["kind"]]
            try:
                o = H.from_dict(copy.deepcopy(inst))
                got = getattr(o, name)
                if got is UNSET or (got is None):
                    ctx.violation("present.falsy_distinct", site, repr(got))
                enc = o.to_dict()
                if name not in enc or not json_eq(enc[name], FALSY[c["kind"]]):
                    ctx.violation("present.falsy_roundtrip", site, f"{enc.get(name, '<absent>')!r} vs {FALSY[c['kind']]!r}")
            except BaseException as e:  # noqa: BLE001
                if behave._is_ctl(e):
                    raise
                ctx.violation("present.accepted", {**site, "exc": type(e).__name__, "falsy": True}, repr(e)[:200])
        # --- constructing without the optional argument leaves UNSET (no declared default)
        if not c["required"] and not c["default"]:
            try:
                full = H.from_dict(copy.deepcopy(base))
                kw = {f"p{j}": getattr(full, f"p{j}") for j, cj in enumerate(cells) if cj["required"] and not cj["default"]}
                o = H(**kw)
                if getattr(o, name) is not UNSET:
                    ctx.violation("absent.constructor_leaves_unset", site, repr(getattr(o, name))[:100])
                if name in o.to_dict():
                    ctx.violation("absent.not_encoded", site, "after construction")
            except BaseException as e:  # noqa: BLE001
                if behave._is_ctl(e):
                    raise
                ctx.label("constructor_probe_failed:" + type(e).__name__)


def _check_params(ctx, pkg, res, cells, op, embed, n_op):
    er = locate.find_endpoint(res, op)
    if er is None:
        ctx.label("endpoint_missing")
        if not res.errors:
            ctx.violation("endpoint.generated", {"pos": "params"}, "no endpoint and no diagnostic")
        else:
            ctx.label("endpoint_diagnosed")
        return
    try:
        mod = pkg.mod(er.module)
    except BaseException as e:  # noqa: BLE001
        if behave._is_ctl(e):
            raise
        ctx.label("endpoint_import_failed")
        return
    UNSET, Unset = pkg.types.UNSET, pkg.types.Unset
    sig = inspect.signature(mod.sync_detailed)
    kwargs = {}
    wire = {}
    for i, c in enumerate(cells):
        name = f"X-Q{i}" if c["pos"] == "header" else f"q{i}"
        py = er.pynames.get((c["pos"], name))
        site = _site(c, embed, n_op)
        ctx.evals()
        ctx.nontrivial([c])
        nullable = c["nullable"] != "none"
        if py is None or py not in sig.parameters:
            ctx.violation("signature.has_parameter", site, f"{name} -> {py}")
            continue
        par = sig.parameters[py]
        has_default = par.default is not inspect.Parameter.empty
        if c["required"] and not c["default"]:
            if has_default:
                ctx.violation("signature.required_is_mandatory", site, f"default {par.default!r}")
        else:
            if not has_default:
                ctx.violation("signature.optional_has_default", site)
            elif not c["default"] and par.default is not UNSET:
                ctx.violation("signature.optional_defaults_to_unset", site, repr(par.default))
        ann = par.annotation
        a_none = admits(ann, lambda a: a is type(None) or a is None)
        if a_none != nullable:
            ctx.violation("type.none_iff_nullable", site, f"annotation {ann!r}")
        a_unset = admits(ann, lambda a: a is Unset)
        if a_unset != (not c["required"]):
            ctx.violation("type.unset_iff_optional", site, f"annotation {ann!r}")
        wire[(c["pos"], name)] = c
        if c["required"] and not c["default"]:
            schema_ir = _ir(c["kind"])
            kwargs[py] = http.to_python(SAMPLE[c["kind"]], schema_ir, {}, lambda s, a=ann: http.enum_class_from_annotation(a))
    if any(c["pos"] == "cookie" and c["kind"] not in ("str", "enum_str") and (c["required"] or c["default"]) for c in cells):
        ctx.label("cookie_call_skipped")
        return
    nh = any(c["pos"] == "header" and c["nullable"] != "none" and c["kind"] != "str" and (c["required"] or c["default"]) for c in cells)
    if nh and "KF-C10-01" in _live and not ctx.replay:
        ctx.exclude("KF-C10-01")
        return
    cap = http.Capture()
    client = http.make_client(pkg, cap, secured=False)
    try:
        mod.sync_detailed(client=client, **kwargs)
    except BaseException as e:  # noqa: BLE001
        if behave._is_ctl(e):
            raise
        ctx.violation("call.raises", {"pos": "params", "exc": type(e).__name__, **({"nullable_nonstring_header": True} if nh else {})}, repr(e)[:200])
        return
    finally:
        http.close_client(client)
    if not cap.requests:
        return
    req = cap.requests[0]
    q = {k for k, _ in req["query"]}
    hm = http.header_map(req)
    ck = http.cookies_of(req)
    for (loc, name), c in wire.items():
        sent = (name in q) if loc == "query" else ((name.lower() in hm) if loc == "header" else (name in ck))
        expect = c["required"] or c["default"]
        site = _site(c, embed, n_op)
        if sent and not expect:
            ctx.violation("absent.not_transmitted", site, name)
        if expect and not sent:
            ctx.violation("present.transmitted", site, name)
    # --- every parameter given, falsy where the kind has a falsy value: all must be transmitted
    kwargs2 = {}
    for (loc, name), c in wire.items():
        py = er.pynames.get((loc, name))
        v = FALSY.get(c["kind"], SAMPLE[c["kind"]])
        if c["kind"] == "array_str":
            v = SAMPLE[c["kind"]]
        if loc == "cookie" and c["kind"] not in ("str", "enum_str"):
            continue
        if loc == "header" and c["nullable"] != "none" and c["kind"] != "str" and "KF-C10-01" in _live:
            continue
        ann = sig.parameters[py].annotation
        kwargs2[py] = http.to_python(v, _ir(c["kind"]), {}, lambda s, a=ann: http.enum_class_from_annotation(a))
    for (loc, name), c in wire.items():
        py = er.pynames.get((loc, name))
        if py not in kwargs2 and c["required"] and not c["default"]:
            return
    cap = http.Capture()
    client = http.make_client(pkg, cap, secured=False)
    try:
        mod.sync_detailed(client=client, **kwargs2)
    except BaseException as e:  # noqa: BLE001
        if behave._is_ctl(e):
            raise
        ctx.violation("call.raises", {"pos": "params", "exc": type(e).__name__, "falsy": True}, repr(e)[:200])
        return
    finally:
        http.close_client(client)
    if not cap.requests:
        return
    req = cap.requests[0]
    q = {k for k, _ in req["query"]}
    hm = http.header_map(req)
    ck = http.cookies_of(req)
    for (loc, name), c in wire.items():
        py = er.pynames.get((loc, name))
        if py not in kwargs2:
            continue
        sent = (name in q) if loc == "query" else ((name.lower() in hm) if loc == "header" else (name in ck))
        if not sent:
            ctx.violation("present.falsy_transmitted", _site(c, embed, n_op), f"{name}={kwargs2[py]!r} was not sent")
    # --- null for a nullable parameter: it has no wire form of its own, so it may be left out or refused - but it must not go out as a
    # text that a present value of the same parameter could also be (None sent as the string "None")
    for (loc, name), c in wire.items():
        py = er.pynames.get((loc, name))
        if c["nullable"] == "none" or py not in kwargs2:
            continue
        cap = http.Capture()
        client = http.make_client(pkg, cap, secured=False)
        ctx.evals()
        try:
            mod.sync_detailed(client=client, **{**kwargs2, py: None})
        except BaseException as e:  # noqa: BLE001
            if behave._is_ctl(e):
                raise
            ctx.label("null_argument_refused")
            continue
        finally:
            http.close_client(client)
        if not cap.requests:
            continue
        req = cap.requests[0]
        texts = [v for k, v in req["query"] if k == name] if loc == "query" else (http.header_map(req).get(name.lower(), []) if loc == "header"
                                                                                   else ([http.cookies_of(req)[name]] if name in http.cookies_of(req) else []))
        ctx.label("null_argument_sent" if texts else "null_argument_left_out")
        for t in texts:
            if _could_be_present(c["kind"], t):
                ctx.violation("null.distinct_from_present", _site(c, embed, n_op), f"None for {name} went out as {t!r}, which a present value could be")


def _could_be_present(kind, text) -> bool:
    if kind in ("str", "one_typelist"):
        return text != ""      # an empty cookie / header value is read as "no value" here, not as the present string ""
    if kind in ("int", "num", "one_int"):
        try:
            float(text)
            return text.lower() not in ("nan", "inf", "-inf", "infinity")
        except ValueError:
            return False
    if kind == "bool":
        return text.lower() in ("true", "false")
    if kind == "enum_str":
        return text in ("aa", "bb")
    if kind == "enum_int":
        return text in ("1", "2")
    return False


def _ir(kind):
    return {"str": {"k": "str"}, "date": {"k": "date"}, "datetime": {"k": "datetime"}, "uuid": {"k": "uuid"}, "int": {"k": "int"},
            "num": {"k": "num"}, "bool": {"k": "bool"}, "enum_str": {"k": "enum", "base": "str", "values": ["aa", "bb"]},
            "enum_int": {"k": "enum", "base": "int", "values": [1, 2]}, "array_str": {"k": "array", "items": {"k": "str"}},
            "union_scalar": {"k": "int"}, "one_int": {"k": "int"}, "one_datetime": {"k": "datetime"}, "one_typelist": {"k": "str"}}.get(kind, {"k": "any"})
