"""C11 - generated code type-checks and its annotations are truthful."""
from __future__ import annotations

import datetime as dt
import enum
import inspect
import io
import json
import os
import re
import subprocess
import sys
import typing
import uuid

from hypothesis import strategies as st

from .. import behave, env, http, locate, sut
from ..gen import docs, instances

ID = "C11"
BUDGET = {"quick": 48, "thorough": 800}
BATCH = 6
CASE_TIMEOUT = 600
RULE = ("cases are batches of 6 generated documents plus 2 hand-shaped ones per batch (a property declared by two allOf members, "
        "drawn from C15's matrix cells that have a conjunction, with defaults; one component union shared by a parameter, required "
        "and optional model properties, array items, a body and a response) - the generated ones cover every schema kind in attribute / list item / union member / additional "
        "property / parameter / body / response position, quoted forward references between sibling models, multi-status response "
        "unions, allOf compositions that share array properties) x literal_enums: (a) all packages of a batch are type-checked by one "
        "mypy process with the repository's own flags (disallow_any_generics, disallow_untyped_defs, warn_redundant_casts, "
        "strict_equality); (b) every value obtained by decoding a schema-valid instance or a served response must conform to the "
        "annotation that holds it (typing.get_type_hints); (c) values drawn from each constructor / function parameter annotation "
        "must be accepted by to_dict / _get_kwargs. (d) every default a generated model class declares is admitted by its own annotation and every package generated without "
        "an error imports; every run also type-checks the complete set of compositions whose two members declare one property with "
        "the same kind of schema and a default (78 documents). An evaluation = one package type-checked, one conformance check or one "
        "encoder probe. Non-trivial = package contains a union, a list of models or a forward reference. distinct = hash(document).")
ASSUMPTIONS = [
    "mypy's verdict depends on the installed mypy/httpx/attrs versions: the repository's own golden record is type-checked first and "
    "the check exits 2 if that fails (environment, not generator)",
    "a 3-line local stub for dateutil.parser stands in for types-python-dateutil (not in the wheelhouse)",
    "mypy errors are keyed by (error code, module kind), never by line number",
    "float admits int (PEP 484); Any admits everything",
]

_live: set[str] = set()


def configure(live_ids, tier, opts):
    global _live
    _live = set(live_ids)


def _prof():
    return docs.profile(max_schemas=4, max_props=4, max_ops=3, max_depth=2, desc=False, component_unions=False, affix_names=True, prefix_items=True,
                        const_everywhere=True,
                        multi_body_multipart=False, multi_body_array=False, const_float="KF-C11-03" not in _live)


@st.composite
def one_doc(draw):
    ir = draw(docs.doc_ir(_prof(), min_schemas=2))
    comps = docs.comp_map(ir)
    # compositions that share an array property with the parent (C15's parent-rewriting is judged here as truthfulness)
    objs = [(n, s) for n, s in ir["schemas"] if s["k"] == "object"]
    if len(objs) >= 1 and draw(st.integers(0, 3)) == 0 and "KF-C11-02" not in _live:
        pn, ps = objs[0]
        if not any(p[0] == "sharedList" for p in ps["props"]):
            ps["props"].append(["sharedList", {"k": "array", "items": {"k": "num"}}, False])
            ir["schemas"].append(["ZzNarrow", {"k": "object", "props": [["sharedList", {"k": "array", "items": {"k": "int"}}, False]],
                                               "addl": None, "allOf": [{"k": "ref", "name": pn}]}])
    insts = []
    for name, s in ir["schemas"]:
        if s["k"] != "object":
            continue
        for i in range(3):
            try:
                insts.append([name, draw(instances.instance(s, docs.comp_map(ir), 0, ["all", "random", "none"][i]))])
            except instances.Unsatisfiable:
                break
    served = []
    for oi, op in enumerate(ir["ops"]):
        for status, content in op["responses"]:
            if content is None or content[1] is None or not isinstance(status, int):
                continue
            mt, s = content
            try:
                if mt.startswith("text/"):
                    served.append([oi, status, {"text": draw(instances.plain_text)}])
                elif mt == "application/octet-stream":
                    served.append([oi, status, {"bytes": "abc"}])
                else:
                    served.append([oi, status, {"json": draw(instances.instance(s, comps))}])
            except instances.Unsatisfiable:
                pass
    # how a component is *used* changes the code generated for it: a model that is also a multipart body gets a second encoder
    used_as = {}
    for name, s in ir["schemas"]:
        if s["k"] == "object" and draw(st.integers(0, 2)) == 0:
            used_as[name] = draw(st.sampled_from(["multipart/form-data", "multipart/form-data", "application/x-www-form-urlencoded"]))
    return {"ir": ir, "insts": insts, "served": served, "literal": draw(st.booleans()), "used_as_body": used_as}


UNION_MEMBERS = {"uuid": {"type": "string", "format": "uuid"}, "int": {"type": "integer"}, "date": {"type": "string", "format": "date"},
                 "enum": {"type": "string", "enum": ["a", "b"]}, "str": {"type": "string"}, "bool": {"type": "boolean"},
                 "num": {"type": "number"}, "model": {"$ref": "#/components/schemas/Leaf"}}
UNION_PAIRS = [("uuid", "int"), ("date", "int"), ("enum", "int"), ("str", "int"), ("model", "int"), ("model", "str"), ("uuid", "bool"),
               ("date", "num"), ("enum", "bool")]


@st.composite
def raw_doc(draw):
    """Hand-shaped documents for the two places where one declaration ends up in several generated positions:
    (i) a property declared by two allOf members (C15's matrix cells that have a conjunction, with defaults),
    (ii) one component union used by a parameter and by model properties / array items / a response with other requiredness."""
    from . import c15

    if draw(st.integers(0, 3)) == 0:
        # (iv) parameters of the shapes the generated documents never give them: objects and models in the query (optional and
        # required), arrays of enums, unions, nullable scalars; optional and required headers and cookies
        shapes = {"model": {"$ref": "#/components/schemas/Filter"}, "inline_object": {"type": "object", "properties": {"colour": {"type": "string"}}},
                  "enum_array": {"type": "array", "items": {"type": "string", "enum": ["a", "b"]}}, "union": {"oneOf": [{"type": "integer"}, {"type": "string", "format": "date"}]},
                  "nullable_int": {"type": "integer", "nullable": True}, "date": {"type": "string", "format": "date"},
                  "model_array": {"type": "array", "items": {"$ref": "#/components/schemas/Filter"}}, "any": {}}
        params = []
        for k_p, key in enumerate(draw(st.lists(st.sampled_from(sorted(shapes)), min_size=2, max_size=5))):
            params.append({"name": f"q{k_p}{key}", "in": "query", "schema": shapes[key], **({"required": True} if draw(st.booleans()) else {})})
        for k_p, (loc, sch) in enumerate(draw(st.lists(st.sampled_from([("header", {"type": "integer"}), ("header", {"type": "boolean"}),
                                                                        ("header", {"type": "string", "enum": ["x", "y"]}), ("cookie", {"type": "string"}),
                                                                        ("cookie", {"type": "string", "enum": ["x", "y"]})]), max_size=3))):
            params.append({"name": f"X-H{k_p}" if loc == "header" else f"c{k_p}", "in": loc, "schema": sch, **({"required": True} if draw(st.booleans()) else {})})
        doc = {"openapi": "3.0.3", "info": {"title": "t", "version": "1"},
               "paths": {"/search": {"get": {"operationId": "searchThings", "parameters": params, "responses": {"200": {"description": "ok"}}}}},
               "components": {"schemas": {"Filter": {"type": "object", "properties": {"colour": {"type": "string"}, "in-stock": {"type": "boolean"}}}}}}
        return {"raw": doc, "tag": "param_shapes:" + "+".join(p["name"] for p in params)[:60], "literal": draw(st.booleans())}
    if draw(st.integers(0, 2)) == 0:
        # (iii) responses that list several media types, with and without schemas, in every order: decode source and schema must
        # come from the same entry
        entries = {"text_noschema": ("text/plain", None), "text_str": ("text/plain", {"type": "string"}),
                   "json_model": ("application/json", {"$ref": "#/components/schemas/Report"}), "json_int": ("application/json", {"type": "integer"}),
                   "json_noschema": ("application/json", None), "vnd_json_list": ("application/vnd.x+json", {"type": "array", "items": {"$ref": "#/components/schemas/Report"}}),
                   "octet": ("application/octet-stream", {"type": "string", "format": "binary"}), "octet_noschema": ("application/octet-stream", None),
                   "xml_model": ("application/xml", {"$ref": "#/components/schemas/Report"})}
        paths = {}
        tags = []
        for k_op in range(draw(st.integers(1, 3))):
            responses = {}
            for status in draw(st.lists(st.sampled_from(["200", "201", "404", "default"]), min_size=1, max_size=2, unique=True)):
                keys = draw(st.lists(st.sampled_from(sorted(entries)), min_size=2, max_size=3, unique_by=lambda k: entries[k][0]))
                responses[status] = {"description": "r", "content": {entries[k][0]: ({"schema": entries[k][1]} if entries[k][1] is not None else {})
                                                                     for k in keys}}
                tags.append("+".join(keys))
            paths[f"/multi{k_op}"] = {"get": {"operationId": f"readMulti{k_op}", "responses": responses}}
        doc = {"openapi": "3.0.3", "info": {"title": "t", "version": "1"}, "paths": paths,
               "components": {"schemas": {"Report": {"type": "object", "required": ["n"], "properties": {"n": {"type": "integer"}}}}}}
        return {"raw": doc, "tag": "multi_media_response:" + tags[0], "literal": draw(st.booleans())}
    if draw(st.booleans()):
        meets = [(a, b) for a, b in c15.pairs() if c15.meet(a, b) is not None
                 and not ({a, b} & {"arr_int", "arr_num"} and "KF-C11-02" in _live and a != b)]
        same_class = [(x, y) for x, y in meets if ("enum" in x and "enum" in y) or x == y]
        a, b = draw(st.sampled_from(same_class if draw(st.booleans()) else meets))   # merges of two properties of one kind re-use more
        case = {"a": a, "b": b, "req": [draw(st.booleans()), draw(st.booleans())],
                "style": draw(st.sampled_from(["ref_ref", "ref_inline", "inline_ref", "inline_inline"])),
                "defaults": draw(st.integers(0, 2)) > 0, "name": draw(st.sampled_from(sorted(c15.PROP_NAMES)))}
        return {"raw": c15._pair_doc(case, draw(st.integers(0, 1))), "tag": f"pair:{a}+{b}", "literal": draw(st.booleans())}
    m1, m2 = draw(st.sampled_from(UNION_PAIRS))
    if draw(st.booleans()):
        m1, m2 = m2, m1
    ref_u = {"$ref": "#/components/schemas/Either"}
    loc = draw(st.sampled_from(["query", "query", "header", "cookie"])) if "model" not in (m1, m2) else "query"
    if loc != "query" and ({m1, m2} - {"str", "int", "enum", "bool", "num"}):
        loc = "query"
    if loc == "cookie" and {m1, m2} != {"str", "enum"}:
        loc = "query"   # non-string cookies are a C03 finding
    param = {"name": "either", "in": loc, "schema": ref_u, **({"required": True} if draw(st.booleans()) else {})}
    holder = {"type": "object", "properties": {"one": ref_u, "many": {"type": "array", "items": ref_u},
                                               "maybe": {"oneOf": [ref_u, {"type": "null"}]} if draw(st.booleans()) else ref_u},
              "required": draw(st.lists(st.sampled_from(["one", "many", "maybe"]), unique=True, max_size=3))}
    ops = {"get": {"operationId": "readThing", "parameters": [param],
                   "responses": {"200": {"description": "ok", "content": {"application/json": {"schema": {"$ref": "#/components/schemas/Holder"}}}}}}}
    if draw(st.booleans()):
        ops["post"] = {"operationId": "writeThing", "requestBody": {"required": True, "content": {"application/json": {"schema": ref_u}}},
                       "responses": {"200": {"description": "ok", "content": {"application/json": {"schema": ref_u}}}}}
    schemas = {"Leaf": {"type": "object", "properties": {"l": {"type": "string"}}},
               "Either": {draw(st.sampled_from(["oneOf", "anyOf"])): [UNION_MEMBERS[m1], UNION_MEMBERS[m2]]}, "Holder": holder}
    if draw(st.booleans()):
        schemas = {"Leaf": schemas["Leaf"], "Holder": holder, "Either": schemas["Either"]}
    doc = {"openapi": "3.1.0", "info": {"title": "t", "version": "1"}, "paths": {"/things": ops}, "components": {"schemas": schemas}}
    return {"raw": doc, "tag": f"shared_union:{m1}+{m2}:{loc}", "literal": draw(st.booleans())}


def _doc_of(d):
    if "raw" in d:
        return d["raw"]
    doc = docs.render(d["ir"])
    names = {n for n, _ in d["ir"]["schemas"]}
    for k_body, (name, mt) in enumerate(sorted((d.get("used_as_body") or {}).items())):
        if name in names:
            doc.setdefault("paths", {})[f"/zzbody{k_body}"] = {"post": {
                "operationId": f"zzSend{k_body}", "requestBody": {"required": True, "content": {mt: {"schema": {"$ref": "#/components/schemas/" + name}}}},
                "responses": {"200": {"description": "ok"}}}}
    return doc


@st.composite
def batches(draw, tier):
    return {"kind": "batch", "docs": [draw(one_doc()) for _ in range(BATCH)] + [draw(raw_doc()), draw(raw_doc()), draw(raw_doc())]}


def strategy(tier):
    return batches(tier)


def sweep(tier):
    """The repository's golden record, then (complete, every run) the compositions in which two allOf members declare one
    property with the same kind of schema and a default - the merges that re-use most of an already built property."""
    from . import c15

    out = [{"kind": "golden"}]
    raw = []
    for a, b in c15.pairs():
        if c15.meet(a, b) is None or not (("enum" in a and "enum" in b) or a == b):
            continue
        if {a, b} & {"arr_int", "arr_num"} and a != b:
            continue
        for style in ("ref_ref", "inline_inline"):
            for literal in ((False, True) if "enum" in a else (False,)):
                case = {"a": a, "b": b, "req": [False, True], "style": style, "defaults": True}
                raw.append({"raw": c15._pair_doc(case, 0), "tag": f"pair:{a}+{b}", "literal": literal})
    for i in range(0, len(raw), 8):
        out.append({"kind": "batch", "docs": raw[i:i + 8]})
    return out


# ------------------------------------------------------------------------------------------------ mypy

MYPY_FLAGS = ["--disallow-any-generics", "--disallow-untyped-defs", "--warn-redundant-casts", "--strict-equality", "--no-error-summary",
              "--show-error-codes", "--no-color-output", "--hide-error-context"]


def run_mypy(cwd: str, targets: list[str], cache: str) -> tuple[int, list[tuple[str, str, str]]]:
    envv = dict(os.environ, MYPYPATH=os.path.join(env.VERIF, "stubs"))
    envv.pop("PYTHONPATH", None)
    r = subprocess.run([sys.executable, "-m", "mypy", *MYPY_FLAGS, "--cache-dir", cache, *targets], cwd=cwd, capture_output=True,
                       text=True, env=envv, timeout=550)
    out = []
    for line in r.stdout.splitlines():
        m = re.match(r"^(.*?):(\d+): error: (.*?)(?:\s+\[([a-z0-9\-]+)\])?$", line)
        if m:
            text = ""
            fn = ""
            try:
                with open(os.path.join(cwd, m.group(1)), encoding="utf-8") as fh:
                    lines = fh.read().splitlines()
                n0 = int(m.group(2)) - 1
                text = lines[n0].strip()
                ind = len(lines[n0]) - len(lines[n0].lstrip())
                for back in range(n0, -1, -1):
                    mm = re.match(r"^(\s*)(?:async\s+)?def\s+(\w+)\(", lines[back])
                    if mm and len(mm.group(1)) < max(ind, 1):
                        fn = mm.group(2)
                        break
            except Exception:
                pass
            out.append((m.group(1), m.group(4) or "?", m.group(3) + " || " + text + " @@" + fn))
    if r.returncode not in (0, 1):
        from ..core import HarnessError

        raise HarnessError("mypy failed to run: " + (r.stderr or r.stdout)[-300:])
    return r.returncode, out


def module_kind(path: str) -> str:
    p = path.replace("\\", "/").split("/")
    if "models" in p:
        return "model_or_enum"
    if "api" in p:
        return "endpoint"
    return p[-1]


# ------------------------------------------------------------------------------------------------ conformance

def conforms(v, hint, ns, depth=0) -> bool:
    if depth > 10 or hint is typing.Any or hint is inspect.Parameter.empty:
        return True
    if hint is None or hint is type(None):
        return v is None
    if isinstance(hint, typing.ForwardRef):
        hint = hint.__forward_arg__
    if isinstance(hint, str):
        cls = ns.get(hint.strip("'\""))
        if cls is None:
            return True
        hint = cls
    origin = typing.get_origin(hint)
    if origin is typing.Union:
        return any(conforms(v, a, ns, depth + 1) for a in typing.get_args(hint))
    if origin is typing.Literal:
        return any(v == a and type(v) is type(a) for a in typing.get_args(hint))
    if origin in (list, typing.List):
        args = typing.get_args(hint)
        return isinstance(v, list) and all(conforms(x, args[0] if args else typing.Any, ns, depth + 1) for x in v)
    if origin in (dict, typing.Dict):
        args = typing.get_args(hint)
        return isinstance(v, dict) and all(isinstance(k, str) and conforms(x, args[1] if len(args) > 1 else typing.Any, ns, depth + 1) for k, x in v.items())
    if origin is tuple:
        return isinstance(v, tuple)
    if origin is not None:
        try:
            return isinstance(v, origin)
        except TypeError:
            return True
    if hint is float:
        return isinstance(v, (int, float)) and not isinstance(v, bool)
    if hint is int:
        return isinstance(v, int) and not isinstance(v, bool)
    if isinstance(hint, type):
        return isinstance(v, hint)
    args = typing.get_args(hint)
    if args:   # a Literal alias
        return any(v == a and type(v) is type(a) for a in args)
    return True


def hints_of(obj, ns):
    """Raw annotations; forward references are resolved by name in conforms()/value_for().
    typing.get_type_hints is avoided on purpose: typing caches Union['X', None] objects (and the class a ForwardRef was first
    evaluated to) process-wide, so with many generated packages in one process a hint could resolve to another package's class."""
    try:
        import attrs

        if isinstance(obj, type) and attrs.has(obj):
            return {f.name: f.type for f in attrs.fields(obj)}
    except Exception:
        pass
    return dict(getattr(obj, "__annotations__", {}) or {})


def value_for(hint, ns, pkg, depth=0, pick=0):
    """A value admitted by the annotation (type-directed), deterministic per `pick`."""
    UNSET = pkg.types.UNSET
    if hint is typing.Any:
        return [5, "s", None, {"k": 1}][pick % 4]
    if hint is None or hint is type(None):
        return None
    if hint is pkg.types.Unset:
        return UNSET
    if isinstance(hint, typing.ForwardRef):
        hint = hint.__forward_arg__
    if isinstance(hint, str):
        hint = ns.get(hint.strip("'\""), typing.Any)
        if hint is typing.Any:
            return None
    origin = typing.get_origin(hint)
    if origin is typing.Union:
        args = list(typing.get_args(hint))
        return value_for(args[pick % len(args)], ns, pkg, depth + 1, pick // max(1, len(args)))
    if origin is typing.Literal:
        args = typing.get_args(hint)
        return args[pick % len(args)]
    if origin in (list, typing.List):
        (item,) = typing.get_args(hint) or (typing.Any,)
        return [] if (depth > 2 or pick % 3 == 2) else [value_for(item, ns, pkg, depth + 1, pick), value_for(item, ns, pkg, depth + 1, pick + 1)]
    if origin in (dict, typing.Dict):
        return {}
    if hint is int:
        return [0, 7, -3][pick % 3]
    if hint is float:
        return [1.5, 2, 0.0][pick % 3]    # an int is admitted by a float annotation
    if hint is str:
        return ["", "text"][pick % 2]
    if hint is bool:
        return [True, False][pick % 2]
    if hint is dt.datetime:
        return dt.datetime(2020, 1, 2, 3, 4, 5)
    if hint is dt.date:
        return dt.date(2020, 1, 2)
    if hint is uuid.UUID:
        return uuid.UUID("12345678-1234-5678-1234-567812345678")
    if isinstance(hint, type) and issubclass(hint, enum.Enum):
        ms = list(hint)
        return ms[pick % len(ms)]
    if hint is getattr(pkg.types, "File", None):
        return pkg.types.File(payload=io.BytesIO(b"x"))
    if isinstance(hint, type) and hasattr(hint, "from_dict"):
        if depth > 2:
            raise _TooDeep()
        return build(hint, ns, pkg, depth + 1, pick)
    args = typing.get_args(hint)
    if args:
        return args[pick % len(args)]
    return None


class _TooDeep(Exception):
    pass


def build(cls, ns, pkg, depth=0, pick=0):
    sig = inspect.signature(cls)
    hints = hints_of(cls, ns)
    kw = {}
    for i, (name, p) in enumerate(sig.parameters.items()):
        h = hints.get(name, p.annotation)
        try:
            kw[name] = value_for(h, ns, pkg, depth, pick + i)
        except _TooDeep:
            if p.default is inspect.Parameter.empty:
                raise
    return cls(**kw)


def run(case, ctx):
    if case["kind"] == "golden":
        _golden(ctx)
        return
    parent = env.fresh_dir("c11")
    gens = []
    try:
        for i, d in enumerate(case["docs"]):
            out = os.path.join(parent, f"pkg{i}")
            res = sut.generate(_doc_of(d), cfg={"literal_enums": bool(d.get("literal"))}, out=out)
            if "raw" in d:
                ctx.label("raw:" + d["tag"].split(":")[0])
            if res.exc is not None or not res.accepted:
                ctx.label("generator_rejected_or_crashed")
                env.rm(out)
                continue
            gens.append((i, d, res))
        if not gens:
            ctx.skip("nothing_generated")
            return
        # (a) one mypy process for the batch
        code, errors = run_mypy(parent, [f"pkg{i}" for i, _, _ in gens], os.path.join(parent, ".mypy_cache"))
        ctx.evals(len(gens))
        per_pkg: dict[str, list] = {}
        for path, ecode, msg in errors:
            per_pkg.setdefault(path.replace("\\", "/").split("/")[0], []).append((path, ecode, msg))
        for i, d, res in gens:
            for path, ecode, msg in per_pkg.get(f"pkg{i}", [])[:6]:
                rel = "/".join(path.replace("\\", "/").split("/")[1:])
                src_line, _, fn_name = msg.split(" || ")[-1].rpartition(" @@")
                ctx.violation("mypy.no_errors", {"code": ecode, "module": module_kind(rel), "literal": bool(d.get("literal")),
                                                 "line": line_kind(src_line), **({"function": fn_name} if fn_name in ("to_multipart",) else {})},
                              f"{rel}: {msg} [{ecode}] | doc#{i}" + (f" ({d['tag']})" if "raw" in d else ""))
        # (b), (c) runtime truthfulness
        for i, d, res in gens:
            _defaults_truthful(ctx, d, res)
            if "raw" in d:
                ctx.nontrivial(d["raw"])
                if d["tag"].split(":")[0] in ("param_shapes", "cookie_int", "shared_union"):
                    _raw_encoders(ctx, d, res)
                continue
            _truthful(ctx, d, res)
            txt = json.dumps(d["ir"])
            if '"union"' in txt or '"array"' in txt or '"ref"' in txt:
                ctx.nontrivial(docs.render(d["ir"]))
        ctx.sample = {"batch_size": len(gens), "mypy_errors": len(errors),
                      "first_doc_schemas": [n for n, _ in case["docs"][0]["ir"]["schemas"]] if "ir" in case["docs"][0] else case["docs"][0]["tag"], "literal_enums": [bool(d.get("literal")) for d in case["docs"]]}
    finally:
        env.rm(parent)


def line_kind(text: str) -> str:
    """Coarse, stable classification of the offending source line (never the line number)."""
    if text.startswith("cookies["):
        return "cookies_assignment"
    if text.startswith("headers["):
        return "headers_assignment"
    if text.startswith("params["):
        return "params_assignment"
    if "return cast(" in text:
        return "return_cast"
    if re.match(r"^json_\w+ = ", text) or re.match(r"^json_\w+: ", text):
        return "json_local"
    if "Literal[" in text:
        return "literal_annotation"
    if re.match(r"^\w+: .* = ", text) or re.match(r"^\w+: ", text):
        return "annotated_assignment"
    if re.match(r"^\w+ = ", text):
        return "assignment"
    if text.startswith("def "):
        return "def"
    return "other"


def _golden(ctx):
    gr = os.path.join(env.REPO, "end_to_end_tests", "golden-record")
    if not os.path.isdir(gr):
        ctx.label("golden_record_absent")
        ctx.nontrivial("golden-absent")
        return
    cache = env.fresh_dir("mypycache")
    code, errors = run_mypy(gr, ["my_test_api_client"], cache)
    env.rm(cache)
    ctx.evals()
    ctx.nontrivial("golden")
    ctx.sample = {"kind": "golden", "errors": len(errors)}
    if errors:
        from ..core import HarnessError

        raise HarnessError(f"the repository's own golden record does not type-check in this environment: {errors[:2]}")


def _defaults_truthful(ctx, d, res):
    """Every default a generated model class declares is a value its own annotation admits; a package that was generated
    without an ERROR-level diagnostic imports."""
    try:
        pkg = sut.Loaded(res.package_dir)
        models = pkg.models
    except BaseException as e:  # noqa: BLE001
        if behave._is_ctl(e):
            raise
        ctx.violation("truthful.package_imports", {"exc": type(e).__name__, "raw": d.get("tag", "ir").split(":")[0]}, repr(e)[:300])
        return
    with pkg:
        import attrs

        ns = {k: getattr(models, k) for k in dir(models) if not k.startswith("_")}
        ns.update({"Unset": pkg.types.Unset, "UNSET": pkg.types.UNSET, "File": pkg.types.File, "datetime": dt, "UUID": uuid.UUID,
                   "Union": typing.Union, "Any": typing.Any, "Optional": typing.Optional, "Literal": typing.Literal,
                   "FileJsonType": getattr(pkg.types, "FileJsonType", typing.Any), "Response": pkg.types.Response})
        for name, cls in list(ns.items()):
            if not (isinstance(cls, type) and attrs.has(cls)) or getattr(cls, "__module__", "").split(".")[0] != models.__name__.split(".")[0]:
                continue
            for f in attrs.fields(cls):
                if f.default is attrs.NOTHING or isinstance(f.default, attrs.Factory) or not f.init:  # type: ignore[arg-type]
                    continue
                ctx.evals()
                if not conforms(f.default, f.type, ns):
                    ctx.violation("truthful.default", {"raw": d.get("tag", "ir").split(":")[0], "literal": bool(d.get("literal"))},
                                  f"{name}.{f.name}: default {f.default!r} is not admitted by {f.type!r}"[:300])


def _raw_encoders(ctx, d, res):
    """Hand-shaped documents have no IR: every generated endpoint module is called with values built from its own annotations, all the
    way into a request (a value the annotation admits must be accepted by the encoder *and* by what the encoder hands on)."""
    try:
        pkg = sut.Loaded(res.package_dir)
        models = pkg.models
    except BaseException as e:  # noqa: BLE001
        if behave._is_ctl(e):
            raise
        ctx.label("import_failed")
        return
    raw = d["raw"]
    cookie_nonstring = any(isinstance(p, dict) and p.get("in") == "cookie" and (p.get("schema") or {}).get("type") != "string"
                           for item in (raw.get("paths") or {}).values() if isinstance(item, dict)
                           for o in item.values() if isinstance(o, dict) for p in (o.get("parameters") or []))
    def _unionish(sc):
        return isinstance(sc, dict) and (any(k in sc for k in ("$ref", "oneOf", "anyOf", "allOf")) or sc.get("nullable") or isinstance(sc.get("type"), list))
    header_union = any(isinstance(p, dict) and p.get("in") == "header" and _unionish(p.get("schema"))
                       for item in (raw.get("paths") or {}).values() if isinstance(item, dict)
                       for o in item.values() if isinstance(o, dict) for p in (o.get("parameters") or []))
    with pkg:
        ns = {k: getattr(models, k) for k in dir(models) if not k.startswith("_")}
        ns.update({"Unset": pkg.types.Unset, "UNSET": pkg.types.UNSET, "File": pkg.types.File, "datetime": dt, "UUID": uuid.UUID,
                   "Union": typing.Union, "Any": typing.Any, "Optional": typing.Optional, "Literal": typing.Literal,
                   "FileJsonType": getattr(pkg.types, "FileJsonType", typing.Any), "Response": pkg.types.Response})
        for name in pkg.all_module_names():
            if not (name.startswith("api.") and name.count(".") == 2):
                continue
            try:
                mod = pkg.mod(name)
            except BaseException as e:  # noqa: BLE001
                if behave._is_ctl(e):
                    raise
                continue
            gk = getattr(mod, "_get_kwargs", None)
            if gk is None or not hasattr(mod, "sync_detailed"):
                continue
            sig = inspect.signature(gk)
            for pick in range(3):
                try:
                    kw = {n: value_for(p.annotation, {**vars(mod), **ns}, pkg, 0, pick + i) for i, (n, p) in enumerate(sig.parameters.items())}
                except _TooDeep:
                    break
                except BaseException as e:  # noqa: BLE001
                    if behave._is_ctl(e):
                        raise
                    break
                cap = http.Capture()
                client = http.make_client(pkg, cap, secured=True)
                ctx.evals()
                ctx.label("raw_endpoint_called")
                try:
                    mod.sync_detailed(client=client, **kw)
                except BaseException as e:  # noqa: BLE001
                    if behave._is_ctl(e):
                        raise
                    ctx.violation("annotation.encoder_accepts", {"exc": type(e).__name__, "where": "request", "raw": d["tag"].split(":")[0],
                                                                 **({"nonstring_cookie_parameter": True} if cookie_nonstring else {}),
                                                                 **({"union_header_parameter": True} if header_union else {})},
                                  f"{name}: {e!r} for {kw!r}"[:400])
                finally:
                    http.close_client(client)


def _truthful(ctx, d, res):
    ir = d["ir"]
    comps = docs.comp_map(ir)
    lit = bool(d.get("literal"))
    try:
        pkg = sut.Loaded(res.package_dir)
        models = pkg.models
    except BaseException as e:  # noqa: BLE001
        if behave._is_ctl(e):
            raise
        ctx.label("import_failed")
        return
    with pkg:
        ns = {k: getattr(models, k) for k in dir(models) if not k.startswith("_")}
        ns.update({"Unset": pkg.types.Unset, "UNSET": pkg.types.UNSET, "File": pkg.types.File, "datetime": dt, "UUID": uuid.UUID,
                   "Union": typing.Union, "Any": typing.Any, "Optional": typing.Optional, "Literal": typing.Literal,
                   "FileJsonType": getattr(pkg.types, "FileJsonType", typing.Any), "Response": pkg.types.Response})
        # (b) decoded attributes conform to their annotations
        for name, value in d["insts"]:
            s = comps.get(name)
            cls = getattr(models, name, None)
            if s is None or cls is None or instances.self_check_valid(value, s, comps) is False:
                continue
            try:
                obj = cls.from_dict(json.loads(json.dumps(value)))
            except BaseException as e:  # noqa: BLE001
                if behave._is_ctl(e):
                    raise
                continue   # decode failures are C02's
            ctx.evals()
            _check_obj(ctx, obj, ns, comps, s, lit)
        # (b) endpoint return values
        for oi, status, body in d["served"]:
            op = ir["ops"][oi]
            er = locate.find_endpoint(res, op)
            if er is None:
                continue
            try:
                mod = pkg.mod(er.module)
            except BaseException as e:  # noqa: BLE001
                if behave._is_ctl(e):
                    raise
                continue
            fn = getattr(mod, "sync_detailed", None)
            if fn is None:
                continue
            kwargs = {}
            ok = True
            sig = inspect.signature(fn)
            for p in op["params"]:
                py = er.pynames.get((p["in"], p["name"]))
                if not p["required"]:
                    continue
                if py is None or py not in sig.parameters:
                    ok = False
                    break
                try:
                    kwargs[py] = value_for(sig.parameters[py].annotation, ns, pkg)
                except Exception:
                    ok = False
            if not ok or "body" in sig.parameters:
                continue
            raw = json.dumps(body["json"]).encode() if "json" in body else (body.get("text", "").encode() if "text" in body else b"abc")
            mt = next((c[0] for st_, c in op["responses"] if st_ == status and c), "application/json")
            cap = http.Capture(status=status, content=raw, headers={"content-type": mt})
            client = http.make_client(pkg, cap, secured=bool(op.get("security")))
            try:
                out = fn(client=client, **kwargs)
            except BaseException as e:  # noqa: BLE001
                if behave._is_ctl(e):
                    raise
                continue   # C03/C04
            finally:
                http.close_client(client)
            ctx.evals()
            hints = hints_of(fn, {**vars(mod), **ns})
            ret = hints.get("return")
            if ret is None:
                continue
            args = typing.get_args(ret)
            inner = args[0] if args else typing.Any
            parsed = out.parsed
            if parsed is not None and not conforms(parsed, inner, {**vars(mod), **ns}):
                src = "text" if "text" in body else ("bytes" if "bytes" in body else "json")
                sch = next((c[1] for st_, c in op["responses"] if st_ == status and c), None)
                ctx.violation("truthful.return_value", {"source": src, "schema": (sch or {}).get("k"), "n_statuses": min(len(op["responses"]), 3)},
                              f"{op['method']} {op['path']} status {status}: {type(parsed).__name__} {parsed!r} vs {inner!r}"[:400])
        # (c) values admitted by annotations are accepted by the encoders
        for name, s in ir["schemas"]:
            cls = getattr(models, name, None)
            if cls is None or s["k"] != "object":
                continue
            for pick in range(3):
                try:
                    obj = build(cls, ns, pkg, 0, pick)
                except _TooDeep:
                    break
                except BaseException as e:  # noqa: BLE001
                    if behave._is_ctl(e):
                        raise
                    ctx.violation("annotation.constructor_accepts", {"exc": type(e).__name__}, f"{name}: {e!r}"[:300])
                    break
                ctx.evals()
                try:
                    enc = obj.to_dict()
                    json.dumps(enc)
                except BaseException as e:  # noqa: BLE001
                    if behave._is_ctl(e):
                        raise
                    ctx.violation("annotation.encoder_accepts", {"exc": type(e).__name__, "where": "to_dict"}, f"{name}: {e!r} for {obj!r}"[:400])
                if hasattr(obj, "to_multipart"):
                    # a model that is also a multipart body has a second encoder
                    ctx.label("to_multipart_called")
                    try:
                        obj.to_multipart()
                    except BaseException as e:  # noqa: BLE001
                        if behave._is_ctl(e):
                            raise
                        ctx.violation("annotation.encoder_accepts", {"exc": type(e).__name__, "where": "to_multipart"}, f"{name}: {e!r} for {obj!r}"[:400])
        for op in ir["ops"]:
            er = locate.find_endpoint(res, op)
            if er is None:
                continue
            try:
                mod = pkg.mod(er.module)
            except BaseException as e:  # noqa: BLE001
                if behave._is_ctl(e):
                    raise
                continue
            gk = getattr(mod, "_get_kwargs", None)
            if gk is None:
                continue
            sig = inspect.signature(gk)
            for pick in range(2):
                try:
                    kw = {n: value_for(p.annotation, {**vars(mod), **ns}, pkg, 0, pick + i) for i, (n, p) in enumerate(sig.parameters.items())}
                except _TooDeep:
                    break
                except BaseException as e:  # noqa: BLE001
                    if behave._is_ctl(e):
                        raise
                    break
                ctx.evals()
                try:
                    gk(**kw)
                except BaseException as e:  # noqa: BLE001
                    if behave._is_ctl(e):
                        raise
                    multi = bool(op.get("body")) and len(op["body"]["content"]) > 1
                    ctx.violation("annotation.encoder_accepts", {"exc": type(e).__name__, "where": "_get_kwargs", **({"multi_body": True} if multi else {})},
                                  f"{op['method']} {op['path']}: {e!r} for {kw!r}"[:400])
                    continue
                # the values must also survive the rest of the way into a request (what _get_kwargs returns is handed to httpx)
                if pick == 0 and hasattr(mod, "sync_detailed"):
                    cap = http.Capture()
                    client = http.make_client(pkg, cap, secured=True)
                    ctx.evals()
                    try:
                        mod.sync_detailed(client=client, **kw)
                    except BaseException as e:  # noqa: BLE001
                        if behave._is_ctl(e):
                            raise
                        multi = bool(op.get("body")) and len(op["body"]["content"]) > 1
                        def _texty(sc):
                            return sc.get("k") == "str" or (sc.get("k") == "enum" and sc.get("base") == "str") or (sc.get("k") == "const" and isinstance(sc.get("value"), str))
                        nonstring_cookie = any(p_["in"] == "cookie" and not _texty(p_["schema"]) for p_ in op.get("params", []))
                        ctx.violation("annotation.encoder_accepts", {"exc": type(e).__name__, "where": "request",
                                                                     **({"nonstring_cookie_parameter": True} if nonstring_cookie else {}),
                                                                     **({"multi_body": True} if multi else {})},
                                      f"{op['method']} {op['path']}: {e!r} for {kw!r}"[:400])
                    finally:
                        http.close_client(client)


def _n_model_members(hint, ns) -> int:
    n = 0
    for a in typing.get_args(hint) or ():
        if isinstance(a, typing.ForwardRef):
            a = ns.get(a.__forward_arg__.strip("'\""))
        elif isinstance(a, str):
            a = ns.get(a.strip("'\""))
        if isinstance(a, type) and hasattr(a, "from_dict"):
            n += 1
        elif typing.get_origin(a) in (list, typing.List):
            n += _n_model_members(a, ns) and 1
    return n


def _const_beside_others(hint, depth=0) -> bool:
    """Does the annotation hold a union in which a single-valued Literal (a const, or an enum of one value) stands beside other members?"""
    if depth > 5:
        return False
    args = typing.get_args(hint) or ()
    if typing.get_origin(hint) is typing.Union:
        real = [a for a in args if a is not type(None) and getattr(a, "__name__", "") != "Unset"]
        if len(real) >= 2 and any(typing.get_origin(a) is typing.Literal and len(typing.get_args(a)) == 1 for a in real):
            return True
    return any(_const_beside_others(a, depth + 1) for a in args if not isinstance(a, (str, int, float, bool, typing.ForwardRef)))


def _schema_has_const_union(s, comps, depth=0, seen=None) -> bool:
    """Does the schema (followed through references) hold a union in which a const stands beside other members?"""
    seen = set() if seen is None else seen
    if not isinstance(s, dict) or depth > 40:
        return False
    k = s.get("k")
    if k == "ref":
        if s["name"] in seen or s["name"] not in comps:
            return False
        seen.add(s["name"])
        return _schema_has_const_union(comps[s["name"]], comps, depth + 1, seen)
    if k == "union" and len(s.get("members", [])) >= 2 and any(m.get("k") == "const" for m in s["members"]):
        return True
    return any(_schema_has_const_union(x, comps, depth + 1, seen)
               for x in [p_[1] for p_ in s.get("props", [])] + s.get("members", []) + s.get("allOf", []) + [s.get("items"), s.get("addl")])


def _check_obj(ctx, obj, ns, comps, s, lit, depth=0, via_union=False):
    if depth > 4:
        return
    hints = hints_of(type(obj), ns)
    for attr, hint in hints.items():
        if attr == "additional_properties":
            v = getattr(obj, attr, {})
            if not conforms(v, hint, ns):
                ctx.violation("truthful.attribute", {"where": "additional_properties", "class_is": type(obj).__name__ == "ZzNarrow" and "narrowing_child" or "other",
                                                     **({"object_chosen_among_union_members": True} if via_union else {})},
                              f"{type(obj).__name__}.additional_properties = {v!r} vs {hint!r}"[:300])
            continue
        if not hasattr(obj, attr):
            continue
        v = getattr(obj, attr)
        if not conforms(v, hint, ns):
            ctx.violation("truthful.attribute", {"where": "attribute", "shared_list": attr == "shared_list",
                                                 **({"object_chosen_among_union_members": True} if via_union else {}),
                                                 **({"const_member_beside_others": True} if _const_beside_others(hint) or _schema_has_const_union(s, comps) else {})},
                          f"{type(obj).__name__}.{attr} = {v!r} vs {hint!r}"[:300])
        elif hasattr(v, "to_dict") and hasattr(type(v), "from_dict"):
            _check_obj(ctx, v, ns, comps, s, lit, depth + 1, via_union or _n_model_members(hint, ns) >= 2)
        elif isinstance(v, list):
            item_h = (typing.get_args(next((a for a in (typing.get_args(hint) or (hint,)) if typing.get_origin(a) in (list, typing.List)), hint)) or (None,))[0]
            for x in v[:3]:
                if hasattr(x, "to_dict") and hasattr(type(x), "from_dict"):
                    _check_obj(ctx, x, ns, comps, s, lit, depth + 1, via_union or (item_h is not None and _n_model_members(item_h, ns) >= 2))
