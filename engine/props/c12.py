"""C12 - same document, same bytes: deterministic and order-independent."""
from __future__ import annotations

import copy
import itertools
import re
import json
import os
import subprocess
import sys

from hypothesis import strategies as st

from .. import env, sut
from ..gen import docs

ID = "C12"
BUDGET = {"quick": 96, "thorough": 3000}
RULE = ("(a) batches of 4 clean documents rich in sibling references / unions / multi-status responses are generated in one "
        "subprocess per PYTHONHASHSEED in {0,1,2,3, two values derived from VERIF_SEED}, once more under seed 0, and the first "
        "document again at the end of each process; digests must agree per document (post-hooks off; default ruff hooks on "
        "for a third of the batches); (b) in-process, every permutation (all when <=4 entries, else 6 drawn) of "
        "components.schemas and of paths must give a byte-identical tree for documents that generate without diagnostics. "
        "An evaluation = one generation. Non-trivial = some model has >=2 sibling references, or a permutation moves a referenced "
        "schema after its user. distinct = hash(document, seed set / permutation).")
ASSUMPTIONS = [
    "hash-seed independence is sampled at 6 seeds, not all",
    "documents with diagnostics are skipped for the permutation clause, as the statement says",
    "the ruff post-hook needs /venv/bin on PATH; .ruff_cache is ignored in snapshots",
]


def _refs(s, acc):
    if not isinstance(s, dict):
        return acc
    if s.get("k") == "ref":
        acc.append(s["name"])
    for p in s.get("props", []):
        _refs(p[1], acc)
    for k in ("items", "addl"):
        _refs(s.get(k), acc)
    for m in s.get("members", []) + s.get("allOf", []):
        _refs(m, acc)
    return acc


def sibling_rich(ir) -> bool:
    comps = docs.comp_map(ir)
    for n, s in ir["schemas"]:
        if s.get("k") == "object":
            tg = {r for r in _refs(s, []) if r != n and comps.get(r, {}).get("k") == "object"}
            if len(tg) >= 2:
                return True
    return False


PROF = docs.profile(max_schemas=6, max_props=5, max_ops=3, max_depth=2, desc=True, component_unions=True, affix_names=2, allof_one_in=2, prefix_items=True)


@st.composite
def rich_doc(draw):
    ir = draw(docs.doc_ir(PROF, min_schemas=3))
    comps = docs.comp_map(ir)
    # how a component is *used* adds generated code of its own: object components that refer to two or more others may also be
    # the multipart or form body of an extra operation (a second encoder, with imports of its own)
    for k, (n, s) in enumerate(list(ir["schemas"])):
        if s["k"] == "object" and len({r for r in _refs(s, []) if r != n}) >= 2 and draw(st.booleans()):
            ir["ops"].append({"path": f"/zzupload{k}", "method": "post", "opid": f"zzUpload{k}", "tags": [], "summary": "", "security": False,
                              "params": [], "body": {"required": True, "content": [[draw(st.sampled_from(["multipart/form-data", "multipart/form-data",
                                                                                                             "application/x-www-form-urlencoded"])),
                                                                                    {"k": "ref", "name": n}]]},
                              "responses": [[200, None]]})
    # two declarations of one string enum class (an inline property and a component named like the derived class) that list the
    # same values in different order: which one is parsed last must not show
    if draw(st.integers(0, 2)) == 0 and "ZzOrder" not in comps:
        vals = draw(st.permutations(["pending", "shipped", "cancelled", "returned"]))
        ir["schemas"].append(["ZzOrder", {"k": "object", "props": [["status", {"k": "enum", "base": "str", "values": list(vals), "null": False}, False]],
                                          "addl": None, "allOf": []}])
        ir["schemas"].append(["ZzOrderStatus", {"k": "enum", "base": "str", "values": list(reversed(vals)), "null": False}])
        # ... and two component enums that share a title (the class is named after the title): both are built in the same phase
        ir["schemas"].append(["ZzStateA", {"k": "enum", "base": "str", "values": list(vals), "null": False, "title": "Zz Shared State"}])
        ir["schemas"].append(["ZzStateB", {"k": "enum", "base": "str", "values": list(reversed(vals)), "null": False, "title": "Zz Shared State"}])
    # a top-level union (or array of it) with an inline object member listed before a reference, declared after the referenced
    # component: permutations turn the reference into a forward one
    plain = [n_ for n_, s_ in ir["schemas"] if s_["k"] == "object"]
    if plain and draw(st.integers(0, 2)) == 0 and "ZzEither" not in comps:
        un = {"k": "union", "how": draw(st.sampled_from(["oneOf", "anyOf"])), "_component_union": True,
              "members": [{"k": "object", "props": [["inlineNote", {"k": "str"}, True]], "addl": None, "allOf": []}, {"k": "ref", "name": draw(st.sampled_from(plain))}]}
        ir["schemas"].append(["ZzEither", un if draw(st.booleans()) else {"k": "array", "items": un}])
    # two children of one parent, one of which declares a near-duplicate of an inherited property name (the generator renames to keep
    # both) while the other only promotes the inherited property: what the first does to the shared parent must not show in the second
    if draw(st.integers(0, 3)) == 0 and "ZzParent" not in comps:
        ir["schemas"].append(["ZzParent", {"k": "object", "props": [["fooBar", {"k": "str"}, False], ["plainOne", {"k": "int"}, False]], "addl": None, "allOf": []}])
        kids = [["ZzKidRenames", {"k": "object", "props": [["foo_bar", {"k": "int"}, False]], "addl": None, "allOf": [{"k": "ref", "name": "ZzParent"}]}],
                ["ZzKidPromotes", {"k": "object", "props": [["ownText", {"k": "str"}, False]], "addl": None, "allOf": [{"k": "ref", "name": "ZzParent"}],
                                   "extra_required": ["fooBar"]}]]
        if draw(st.booleans()):
            kids.reverse()
        ir["schemas"] += kids
    # names of which nothing is left after sanitising ("$", "@", "-"): whatever the generator puts in their place must not depend on
    # the process (one such name per scope: merging of several is C09's subject)
    if draw(st.integers(0, 2)) == 0:
        objs = [s_ for _, s_ in ir["schemas"] if s_["k"] == "object" and not s_.get("allOf")]
        if objs:
            draw(st.sampled_from(objs))["props"].append([draw(st.sampled_from(["$", "@", "-", "%", "__", "~"])), {"k": "str"}, draw(st.booleans())])
        if ir["ops"]:
            op_ = draw(st.sampled_from(ir["ops"]))
            what = draw(st.sampled_from(["param", "tag", "both"]))
            if what in ("param", "both") and not any(p_["in"] == "query" and not re.search(r"[A-Za-z0-9]", p_["name"]) for p_ in op_["params"]):
                op_["params"].append({"name": draw(st.sampled_from(["$", "@", "%"])), "in": "query", "required": False, "schema": {"k": "int"}, "level": "op"})
            if what in ("tag", "both"):
                op_["tags"] = [draw(st.sampled_from(["@", "$", "--"]))] + [t for t in op_["tags"]][:1]
    # a parameter spelled like a name the generated function reserves only in *some* operations ("body" where there is no request
    # body), next to an operation that has one: what one operation reserves must not leak into another, in whatever order they come
    bodyless = [o for o in ir["ops"] if not o.get("body") and not any(p_["name"].lower() == "body" for p_ in o["params"])]
    if bodyless and any(o.get("body") for o in ir["ops"]) and draw(st.integers(0, 1)) == 0:
        draw(st.sampled_from(bodyless))["params"].append({"name": "body", "in": draw(st.sampled_from(["query", "header"])), "required": False,
                                                          "schema": {"k": "str"}, "level": "op"})
    return ir


@st.composite
def cases(draw, tier):
    kind = draw(st.sampled_from(["seeds", "perm", "perm"]))
    if kind == "seeds":
        irs = [draw(rich_doc()) for _ in range(4)]
        lit = draw(st.booleans())
        if lit:
            # values that differ only in case are distinct Literal alternatives (as Enum members they collide: C06/C14 findings)
            for ir_ in irs:
                if draw(st.booleans()):
                    ir_["schemas"].append(["ZzCase", {"k": "enum", "base": "str", "null": False,
                                                      "values": draw(st.permutations(["asc", "ASC", "Asc", "desc", "DESC", "x"]))[:draw(st.integers(3, 6))]}])
        return {"kind": "seeds", "irs": irs, "hooks": draw(st.integers(0, 2)) == 0,
                "cfg": {"literal_enums": lit, "docstrings_on_attributes": draw(st.booleans())},
                "meta": draw(st.sampled_from(["none", "none", "poetry"])), "extra_seeds": [draw(st.integers(4, 4000)), draw(st.integers(4001, 2**31))]}
    ir = draw(rich_doc())
    n = len(ir["schemas"])
    perms = []
    if n <= 4:
        perms = [list(p) for p in itertools.permutations(range(n))][1:]
    else:
        for _ in range(6):
            perms.append(list(draw(st.permutations(range(n)))))
        perms.append(list(reversed(range(n))))
    m = len(ir["ops"])
    op_perms = [list(p) for p in itertools.permutations(range(m))][1:] if m <= 3 else [list(reversed(range(m)))]
    return {"kind": "perm", "ir": ir, "perms": perms, "op_perms": op_perms,
            "cfg": {"literal_enums": draw(st.booleans())}, "hooks": draw(st.integers(0, 5)) == 0}


def strategy(tier):
    return cases(tier)


def run(case, ctx):
    if case["kind"] == "seeds":
        _run_seeds(case, ctx)
    else:
        _run_perm(case, ctx)


def _run_seeds(case, ctx):
    d = env.fresh_dir("c12")
    specs = []
    for i, ir in enumerate(case["irs"]):
        p = os.path.join(d, f"doc{i}.json")
        with open(p, "w") as f:
            json.dump(docs.render(ir), f)
        specs.append({"path": p, "meta": case.get("meta", "none"), "cfg": case.get("cfg") or {}, "hooks": bool(case.get("hooks"))})
    specp = os.path.join(d, "spec.json")
    with open(specp, "w") as f:
        json.dump({"docs": specs}, f)
    seeds = [0, 1, 2, 3] + list(case.get("extra_seeds", [])) + [0]
    results = []
    for s in seeds:
        envv = dict(os.environ, PYTHONHASHSEED=str(s))
        try:
            r = subprocess.run([sys.executable, "-B", os.path.join(env.VERIF, "engine", "driver_digest.py"), specp],
                               capture_output=True, text=True, env=envv, timeout=300, cwd=d)
        except subprocess.TimeoutExpired:
            ctx.skip("driver_timeout")
            env.rm(d)
            return
        line = [ln for ln in r.stdout.splitlines() if ln.startswith("DIGESTS ")]
        if not line:
            from ..core import HarnessError

            raise HarnessError("digest driver failed: " + (r.stderr or r.stdout)[-400:])
        results.append((s, json.loads(line[0][8:])))
        ctx.evals(len(specs) + 1)
    env.rm(d)
    hooks = bool(case.get("hooks"))
    base_seed, base = results[0]
    for s, res in results[1:]:
        for a, b in zip(base, res):
            if "crash" in a or "crash" in b:
                continue
            if a["digest"] != b["digest"]:
                differing = sorted(k for k in set(a["files"]) | set(b["files"]) if a["files"].get(k) != b["files"].get(k))
                kinds = sorted({_fkind(k) for k in differing})
                clause = "deterministic.same_seed" if s == base_seed else "deterministic.hash_seed"
                ctx.violation(clause, {"hooks": hooks, "files": kinds[:2]}, f"doc {a['i']} seeds {base_seed} vs {s}: {differing[:4]}")
    # the first document regenerated after the others, inside each process
    for s, res in results:
        if len(res) >= 2 and "digest" in res[0] and "digest" in res[-1] and res[0]["i"] == res[-1]["i"]:
            if res[0]["digest"] != res[-1]["digest"]:
                ctx.violation("deterministic.no_state_between_generations", {"hooks": hooks}, f"seed {s}")
    if any(sibling_rich(ir) for ir in case["irs"]):
        ctx.nontrivial(["seeds", [docs.render(ir) for ir in case["irs"]], seeds])
        ctx.sample = {"kind": "seeds", "hash_seeds": seeds, "hooks": hooks, "n_docs": len(case["irs"]),
                      "first_doc_schemas": [n for n, _ in case["irs"][0]["schemas"]]}
    ctx.label("seeds", "hooks_on" if hooks else "hooks_off")


def _fkind(rel: str) -> str:
    parts = rel.replace("\\", "/").split("/")
    if "models" in parts:
        return "models_init" if parts[-1] == "__init__.py" else "model"
    if "api" in parts:
        return "endpoint"
    return parts[-1]


def _diff_class(a, b, df) -> str:
    """'lazy_import_lines_only' iff the trees differ only by added/removed 'from ..models.x import Y' lines inside functions."""
    import difflib
    import re

    if df["only_a"] or df["only_b"]:
        return "file_set"
    rx = re.compile(r"^\s+from \.\.models\.\w+ import \w+\s*$")
    for k in df["differ"]:
        try:
            la, lb = a[k].decode().splitlines(), b[k].decode().splitlines()
        except UnicodeDecodeError:
            return "other"
        for ln in difflib.ndiff(la, lb):
            if ln[:2] in ("+ ", "- ") and ln[2:].strip() and not rx.match(ln[2:]):
                return "other"
    return "lazy_import_lines_only"


def _run_perm(case, ctx):
    ir = case["ir"]
    hooks = bool(case.get("hooks"))
    base = sut.generate(docs.render(ir), cfg=case.get("cfg") or {}, hooks=hooks, pkg_name="pkg")
    ctx.evals()
    try:
        if base.exc is not None or not base.accepted:
            ctx.skip("generator_rejected_or_crashed")
            return
        if base.errors:
            ctx.skip("has_diagnostics")
            return
        snap0 = sut.snapshot(base.out)
    finally:
        env.rm(os.path.dirname(base.out))
    moved = False
    users = {n: set(_refs(s, [])) for n, s in ir["schemas"]}
    variants = [("schemas", p) for p in case["perms"]] + [("paths", p) for p in case["op_perms"]]
    for what, perm in variants:
        ir2 = copy.deepcopy(ir)
        if what == "schemas":
            if sorted(perm) != list(range(len(ir["schemas"]))):
                continue
            ir2["schemas"] = [ir2["schemas"][i] for i in perm]
            names = [n for n, _ in ir2["schemas"]]
            for n in names:
                for r in users.get(n, ()):
                    if r in names and names.index(r) > names.index(n):
                        moved = True
        else:
            if sorted(perm) != list(range(len(ir["ops"]))):
                continue
            ir2["ops"] = [ir2["ops"][i] for i in perm]
        r2 = sut.generate(docs.render(ir2), cfg=case.get("cfg") or {}, hooks=hooks, pkg_name="pkg")
        ctx.evals()
        try:
            if r2.exc is not None:
                ctx.violation("order.same_outcome", {"what": what, "how": "crash"}, repr(r2.exc)[:200])
                continue
            if r2.errors:
                ctx.violation("order.same_outcome", {"what": what, "how": "diagnostics_appear"}, r2.diag_text()[:300])
                continue
            snap = sut.snapshot(r2.out)
            if snap != snap0:
                df = sut.diff_snap(snap0, snap)
                kinds = sorted({_fkind(k) for k in df["only_a"] + df["only_b"] + df["differ"]})
                changed = df["only_a"] + df["only_b"] + df["differ"]
                family = all(os.path.basename(k_) in ("zz_kid_promotes.py", "zz_kid_renames.py", "zz_parent.py") for k_ in changed)
                ctx.violation("order.identical_tree", {"what": what, "files": kinds[:2], "hooks": hooks,
                                                       "set_changed": bool(df["only_a"] or df["only_b"]),
                                                       "diff": _diff_class(snap0, snap, df),
                                                       **({"only_children_of_parent_with_renamed_property": True} if family else {})},
                              f"perm {perm}: {json.dumps(df)[:300]}")
        finally:
            env.rm(os.path.dirname(r2.out))
    if moved or sibling_rich(ir):
        ctx.nontrivial(["perm", docs.render(ir), case["perms"][:3]])
        ctx.sample = {"kind": "perm", "schemas": [n for n, _ in ir["schemas"]], "perms": case["perms"][:3]}
    ctx.label("perm", "moved_ref_after_user" if moved else "no_forward_move")
