"""C13 - declared defaults become equal Python defaults; bad defaults are rejected."""
from __future__ import annotations

import datetime as dt
import enum
import inspect
import math
import uuid

from hypothesis import strategies as st

from .. import behave, env, http, locate, sut
from ..gen.instances import json_eq

ID = "C13"
BUDGET = {"quick": 640, "thorough": 12000}
EXHAUSTIVE = True
RULE = ("matrix: kind in {string, date, date-time, uuid, integer, number, boolean, string enum, integer enum, const, "
        "union[int,bool], any, $ref-to-enum with the default on an allOf wrapper, allOf member overriding a parent's default} "
        "x default value from three pools per kind (valid / lenient = the project's documented conversions / invalid = every "
        "other JSON value incl. wrong type, unlisted enum value, malformed date/uuid, non-finite numbers, containers) x route "
        "in {model property, query, header, cookie parameter} x both enum styles x shape in {written on the schema; written on an "
        "allOf (and, for models, oneOf) wrapper around a $ref to the schema; enum next to an earlier declaration of the same "
        "enum class (same derived name and values, another default) in a second location / component}; quick = the whole fixed matrix, thorough "
        "adds Hypothesis-drawn values per cell. Every cell is non-trivial; distinct = the cell tuple.")
ASSUMPTIONS = [
    "lenient pool = what the project converts on purpose (string spellings of numbers/booleans, numbers/booleans for strings, "
    "any isoparse-able text for date/date-time, any uuid.UUID-parseable spelling): either a diagnostic or the typed parse is accepted",
    "array/object/null kinds are outside the property's quantifier and not generated",
    "header route only for kinds the generator allows in headers; cookie route only checks the signature default (calls are C03's)",
]

_live: set[str] = set()


def configure(live_ids, tier, opts):
    global _live
    _live = set(live_ids)


U1 = "12345678-1234-5678-1234-567812345678"
POOLS = {
    "str": {"valid": ["abc", "", "with space", "ünï", "a'b", "{x}", "100%"], "lenient": [5, 1.5, True],
            "invalid": [[1], {"q": 1}], "quote": ['a"b']},
    "date": {"valid": ["2020-01-02", "1999-12-31"], "lenient": ["2020-01-02T03:04:05", "20200102", "2020-01"],
             "invalid": ["yesterday", 3, True, "2020-13-45", [2020]]},
    "datetime": {"valid": ["2020-01-02T03:04:05Z", "2020-01-02T03:04:05+01:00", "2020-01-02T03:04:05.123456"],
                 "lenient": ["2020-01-02", "20200102T030405"], "invalid": ["nope", 3, False, "2020-01-02T25:00:00", {}]},
    "uuid": {"valid": [U1], "lenient": [U1.upper(), U1.replace("-", ""), "{" + U1 + "}", "urn:uuid:" + U1],
             "invalid": ["xyz", 3, True, U1[:-1], []]},
    "int": {"valid": [0, -5, 2**40, 7, 2**53 + 1, 2**63 - 1, -(2**63), 10**30], "lenient": ["4", "4.0", 4.0, "-3"], "invalid": ["x", 1.5, True, [], "1.5", {}],
            "nonfinite": ["inf", "nan", float("inf")]},
    "num": {"valid": [1.5, 3, -0.25, 0, 2**53 + 1], "lenient": ["5.5", "5", "-1e3"], "invalid": ["x", True, [], {}],
            "nonfinite": ["inf", "nan", float("inf"), "1e999"]},
    "bool": {"valid": [True, False], "lenient": ["true", "False", "TRUE"], "invalid": ["yes", 1, 0, "1", [], 1.0]},
    "enum_str": {"valid": ["aa", "b b"], "lenient": [], "invalid": ["cc", 1, "AA", True, ["aa"], ""]},
    "enum_int": {"valid": [1, -2], "lenient": [1.0], "invalid": [3, "1", 1.5, []], "boolish": [True]},
    # the same enums listing null as well (the generator turns those into a union of null and the enum)
    "enum_str_null": {"valid": ["aa", "b b"], "lenient": [], "invalid": ["cc", 1, ["aa"]]},
    "enum_int_null": {"valid": [1, -2], "lenient": [], "invalid": [3, "1", []]},
    "const": {"valid": ["fixed"], "lenient": [], "invalid": ["other", 1, True, []]},
    "union": {"valid": [3, True, -1, False], "lenient": ["4", "true", 4.0], "invalid": ["abc", 1.5, [], {}]},
    "any": {"valid": ["abc", 3, 1.5, True, [1, "x"], {"a": 1}, ""], "lenient": [], "invalid": [], "nonfinite": [float("inf")]},
    "ref_enum": {"valid": ["aa"], "lenient": [], "invalid": ["cc", 1, ["aa"]]},
    "allof_override": {"valid": [2, 0], "lenient": ["4"], "invalid": ["x", 1.5, True, []]},
    "allof_untyped_first": {"valid": [2, 0, 7], "lenient": ["4"], "invalid": ["x", 1.5, True, []]},
    "allof_untyped_last": {"valid": [2, 0], "lenient": [], "invalid": ["x", 1.5, True, []]},
    "const_int": {"valid": [1], "lenient": [1.0], "invalid": [2, "1", True, 1.5, []]},
    "const_bool": {"valid": [True], "lenient": [], "invalid": [False, 1, "true", 1.0]},
    "const_zero": {"valid": [0], "lenient": [0.0], "invalid": [False, "0", 1]},
    # unions whose members treat a default differently: null next to string (the text "None" is a string), integer next to an array
    # (array defaults are outside the statement, the integer member's are not), and a kind that has no valid default at all
    "null_or_str": {"valid": ["None", "abc", "null"], "lenient": [], "invalid": [[1], {"a": 1}]},
    "int_or_array": {"valid": [5, 0], "lenient": [], "invalid": ["abc", 1.5]},
    "array_or_int": {"valid": [5, 0], "lenient": [], "invalid": ["abc", 1.5]},
    "binary": {"valid": [], "lenient": [], "invalid": ["abc", 5]},
}
HEADER_KINDS = {"str", "int", "num", "bool", "enum_str", "enum_int"}
ENUM_KINDS = ("enum_str", "enum_int", "ref_enum", "enum_str_null", "enum_int_null")
COOKIE_KINDS = {"str", "enum_str", "int", "num", "bool", "date", "uuid"}
VIA_REF_KINDS = {"str", "date", "datetime", "uuid", "int", "num", "bool", "enum_str", "enum_int"}
ONE_MEMBER_KINDS = {"str", "date", "datetime", "uuid", "int", "num", "bool"}
TWIN_DEFAULT = {"enum_str": ["aa", "b b"], "enum_int": [1, -2]}
PARAM_KINDS = {"str", "date", "datetime", "uuid", "int", "num", "bool", "enum_str", "enum_int", "union", "ref_enum", "enum_str_null", "enum_int_null"}


def cells():
    out = []
    for kind, pools in POOLS.items():
        for pool, vals in pools.items():
            for v in vals:
                for route in ("model", "query", "header", "cookie"):
                    if route != "model" and kind not in PARAM_KINDS:
                        continue
                    if route == "header" and kind not in HEADER_KINDS:
                        continue
                    if route == "cookie" and kind not in COOKIE_KINDS:
                        continue
                    for literal in ((False, True) if kind in ENUM_KINDS else (False,)):
                        out.append({"kind": kind, "pool": pool, "value": v, "route": route, "literal": literal})
                        # the same cell with the default written on a wrapper around a $ref to the schema (allOf; oneOf for models)
                        if kind in VIA_REF_KINDS and route in ("model", "query", "header"):
                            out.append({"kind": kind, "pool": pool, "value": v, "route": route, "literal": literal, "shape": "via_ref"})
                            if route == "model" and pool == "valid":
                                out.append({"kind": kind, "pool": pool, "value": v, "route": route, "literal": literal, "shape": "via_ref_oneof"})
                        # the same cell with the default written beside a union that has a single member (composition keyword with one
                        # inline entry, 3.1 type list with one entry): the default is the union's, the type the member's
                        if kind in ONE_MEMBER_KINDS and route in ("model", "query"):
                            for shp in ("one_anyof", "one_oneof", "one_typelist"):
                                out.append({"kind": kind, "pool": pool, "value": v, "route": route, "literal": literal, "shape": shp})
                        # the same cell next to an earlier declaration of the *same* enum class (same derived name, same values)
                        # that carries another default
                        if kind in ("enum_str", "enum_int"):
                            out.append({"kind": kind, "pool": pool, "value": v, "route": route, "literal": literal, "shape": "twin"})
    return out


def sweep(tier):
    return cells()


@st.composite
def random_cell(draw):
    kind = draw(st.sampled_from(["str", "int", "num", "bool", "date", "datetime", "uuid", "any", "enum_str", "enum_int"]))
    any_json = st.recursive(st.one_of(st.none(), st.booleans(), st.integers(-10**6, 10**6), st.floats(allow_nan=True, allow_infinity=True),
                                      st.text(alphabet="abc019 -:.TZ+eE", max_size=12), st.dates().map(str), st.uuids().map(str)),
                            lambda ch: st.one_of(st.lists(ch, max_size=2), st.dictionaries(st.sampled_from(["a", "b"]), ch, max_size=2)),
                            max_leaves=4)
    v = draw(any_json)
    if v is None:
        v = 0
    route = "model" if kind == "any" else draw(st.sampled_from(["model", "query"]))
    return {"kind": kind, "pool": "random", "value": v, "route": route, "literal": False}


def strategy(tier):
    return random_cell()


# ------------------------------------------------------------------------------------------------ reference

def schema_for(kind, default):
    if kind == "str":
        return {"type": "string", "default": default}, {}
    if kind == "date":
        return {"type": "string", "format": "date", "default": default}, {}
    if kind == "datetime":
        return {"type": "string", "format": "date-time", "default": default}, {}
    if kind == "uuid":
        return {"type": "string", "format": "uuid", "default": default}, {}
    if kind == "int":
        return {"type": "integer", "default": default}, {}
    if kind == "num":
        return {"type": "number", "default": default}, {}
    if kind == "bool":
        return {"type": "boolean", "default": default}, {}
    if kind == "enum_str":
        return {"type": "string", "enum": ["aa", "b b"], "default": default}, {}
    if kind == "enum_int":
        return {"type": "integer", "enum": [1, -2, 0], "default": default}, {}
    if kind == "enum_str_null":
        return {"type": "string", "enum": ["aa", "b b", None], "default": default}, {}
    if kind == "enum_int_null":
        return {"type": "integer", "enum": [1, -2, 0, None], "default": default}, {}
    if kind == "const":
        return {"const": "fixed", "default": default}, {}
    if kind == "const_int":
        return {"const": 1, "default": default}, {}
    if kind == "const_bool":
        return {"const": True, "default": default}, {}
    if kind == "const_zero":
        return {"const": 0, "default": default}, {}
    if kind == "union":
        return {"anyOf": [{"type": "integer"}, {"type": "boolean"}], "default": default}, {}
    if kind == "any":
        return {"default": default}, {}
    if kind == "null_or_str":
        return {"oneOf": [{"type": "null"}, {"type": "string"}], "default": default}, {}
    if kind == "int_or_array":
        return {"anyOf": [{"type": "integer"}, {"type": "array", "items": {"type": "string"}}], "default": default}, {}
    if kind == "array_or_int":
        return {"anyOf": [{"type": "array", "items": {"type": "string"}}, {"type": "integer"}], "default": default}, {}
    if kind == "binary":
        return {"type": "string", "format": "binary", "default": default}, {}
    if kind == "ref_enum":
        return {"allOf": [{"$ref": "#/components/schemas/Kind"}], "default": default}, {"Kind": {"type": "string", "enum": ["aa", "bb"]}}
    raise KeyError(kind)


def classify(kind, v) -> str:
    """valid / lenient / invalid / ambiguous according to the pools' definition, for arbitrary JSON v (random cells)."""
    from dateutil.parser import isoparse

    isnum = isinstance(v, (int, float)) and not isinstance(v, bool)
    if isinstance(v, float) and not math.isfinite(v) and kind in ("int", "num", "any"):
        return "nonfinite"
    if isinstance(v, float) and not math.isfinite(v) and kind == "str":
        return "lenient"      # a number offered to a string property is taken by str() or refused, like 1.5 - finite or not
    if kind == "any":
        return "valid" if _finite_tree(v) else "nonfinite"
    if kind == "str":
        if isinstance(v, str):
            return "quote" if ('"' in v or "\\" in v) else "valid"
        return "lenient" if isinstance(v, (int, float, bool)) else "invalid"
    if kind == "int":
        if isinstance(v, int) and not isinstance(v, bool):
            return "valid"
        if isinstance(v, float):
            return "lenient" if v == int(v) else "invalid"
        if isinstance(v, str):
            try:
                f = float(v)
            except ValueError:
                return "invalid"
            if not math.isfinite(f):
                return "nonfinite"
            return "lenient" if f == int(f) else "invalid"
        return "invalid"
    if kind == "num":
        if isnum:
            return "valid"
        if isinstance(v, str):
            try:
                f = float(v)
            except ValueError:
                return "invalid"
            return "lenient" if math.isfinite(f) else "nonfinite"
        return "invalid"
    if kind == "bool":
        if isinstance(v, bool):
            return "valid"
        return "lenient" if isinstance(v, str) and v.lower() in ("true", "false") else "invalid"
    if kind in ("date", "datetime"):
        if not isinstance(v, str):
            return "invalid"
        try:
            p = isoparse(v)
        except Exception:
            return "invalid"
        if kind == "date":
            return "valid" if p.date().isoformat() == v else "lenient"
        return "valid" if "T" in v else "lenient"
    if kind == "uuid":
        if not isinstance(v, str):
            return "invalid"
        try:
            u = uuid.UUID(v)
        except Exception:
            return "invalid"
        return "valid" if str(u) == v else "lenient"
    if kind == "enum_str":
        return "valid" if v in ("aa", "b b") and isinstance(v, str) else "invalid"
    if kind == "enum_int":
        if isinstance(v, bool):
            return "boolish" if int(v) in (1, -2, 0) else "invalid"
        if isinstance(v, int) and v in (1, -2, 0):
            return "valid"
        if isinstance(v, float) and v in (1, -2, 0):
            return "lenient"
        return "invalid"
    return "invalid"


def _finite_tree(v) -> bool:
    if isinstance(v, float):
        return math.isfinite(v)
    if isinstance(v, list):
        return all(_finite_tree(x) for x in v)
    if isinstance(v, dict):
        return all(_finite_tree(x) for x in v.values())
    return True


def expected_json(kind, v):
    """The JSON value that omitting the argument must encode (None = not comparable as JSON)."""
    from dateutil.parser import isoparse

    if kind == "date":
        return isoparse(v).date().isoformat()
    if kind == "datetime":
        return ("dt", isoparse(v))
    if kind == "uuid":
        return str(uuid.UUID(v))
    if kind in ("int", "allof_override", "allof_untyped_first", "allof_untyped_last", "const_int", "const_zero"):
        if isinstance(v, int) and not isinstance(v, bool):
            return v           # exact: integers beyond 2**53 must not pass through a double
        try:
            return int(v)
        except (TypeError, ValueError):
            return int(float(v))
    if kind == "num":
        return v if isinstance(v, int) and not isinstance(v, bool) else float(v)   # an integer-valued number default stays exact
    if kind == "bool":
        return v if isinstance(v, bool) else v.lower() == "true"
    if kind == "str":
        return v if isinstance(v, str) else None
    if kind in ("enum_int", "enum_int_null"):
        return int(v)
    if kind == "union":
        if isinstance(v, str):
            return None
        return v
    return v


def value_json(got):
    if isinstance(got, enum.Enum):
        return got.value
    if isinstance(got, dt.datetime):
        return ("dt", got)
    if isinstance(got, dt.date):
        return got.isoformat()
    if isinstance(got, uuid.UUID):
        return str(got)
    return got


def same(exp, got) -> bool:
    if isinstance(exp, tuple) and exp and exp[0] == "dt":
        return isinstance(got, tuple) and got[0] == "dt" and exp[1] == got[1]
    return json_eq(exp, got)


def type_ok(kind, got, literal) -> bool:
    if kind == "date":
        return isinstance(got, dt.date) and not isinstance(got, dt.datetime)
    if kind == "datetime":
        return isinstance(got, dt.datetime)
    if kind == "uuid":
        return isinstance(got, uuid.UUID)
    if kind in ENUM_KINDS:
        return (not isinstance(got, enum.Enum)) if literal else isinstance(got, enum.Enum)
    if kind in ("int", "allof_override", "allof_untyped_first", "allof_untyped_last", "const_int", "const_zero"):
        return isinstance(got, int) and not isinstance(got, bool)
    if kind == "num":
        return isinstance(got, (int, float)) and not isinstance(got, bool)
    if kind == "bool":
        return isinstance(got, bool)
    if kind == "str":
        return isinstance(got, str)
    return True


def run(case, ctx):
    kind, pool, v, route = case["kind"], case["pool"], case["value"], case["route"]
    literal = bool(case.get("literal"))
    if pool == "random":
        pool = classify(kind, v)
    site = {"kind": kind, "pool": pool, "route": route}
    if kind == "num" and isinstance(v, int) and not isinstance(v, bool) and abs(v) > 2**53:
        site["integer_beyond_double_precision"] = True
    if kind in ("allof_override", "allof_untyped_first", "allof_untyped_last"):
        first = {"type": "integer", "default": 1} if kind != "allof_untyped_first" else {"default": 1}
        second = {"type": "integer", "default": v} if kind != "allof_untyped_last" else {"default": v}
        comps = {"Parent": {"type": "object", "properties": {"pp": first}},
                 "Holder": {"allOf": [{"$ref": "#/components/schemas/Parent"},
                                      {"type": "object", "properties": {"pp": second}}]}}
        paths = {}
        if route != "model":
            return
    else:
        sch, extra = schema_for(kind, v)
        comps = dict(extra)
        paths = {}
        shape = case.get("shape", "plain")
        twin_param = None
        if shape != "plain":
            site["shape"] = shape
            ctx.label("shape:" + shape)
        if shape in ("via_ref", "via_ref_oneof"):
            target = {k_: v_ for k_, v_ in sch.items() if k_ != "default"}
            comps["Target"] = target
            sch = {("oneOf" if shape == "via_ref_oneof" else "allOf"): [{"$ref": "#/components/schemas/Target"}], "default": v}
        elif shape in ("one_anyof", "one_oneof"):
            sch = {shape[4:].replace("anyof", "anyOf").replace("oneof", "oneOf"): [{k_: v_ for k_, v_ in sch.items() if k_ != "default"}], "default": v}
        elif shape == "one_typelist":
            sch = {**sch, "type": [sch["type"]]}
        elif shape == "twin":
            d1 = next(x for x in TWIN_DEFAULT[kind] if not (type(x) is type(v) and x == v))
            case = dict(case, twin_default=d1)
            twin_schema = {**{k_: v_ for k_, v_ in sch.items() if k_ != "default"}, "default": d1}
            if route == "model":
                comps["HolderPp"] = twin_schema          # the class name an inline enum at Holder.pp derives
            else:
                # same wire name in another location (header values of any scalar kind are stringified; cookies are not: C03 finding)
                other = "header" if route != "header" else "query"
                twin_param = {"name": "X-Pp" if route == "header" else "pp", "in": other, "schema": twin_schema}
        if route == "model":
            comps["Holder"] = {"type": "object", "properties": {"pp": sch, "other": {"type": "string"}}}
        else:
            name = "X-Pp" if route == "header" else "pp"
            params = ([twin_param] if twin_param else []) + [{"name": name, "in": route, "schema": sch}]
            paths = {"/items": {"get": {"operationId": "fetchThing", "parameters": params,
                                        "responses": {"200": {"description": "ok"}}}}}
    doc = {"openapi": "3.1.0" if case.get("shape") == "one_typelist" else "3.0.3", "info": {"title": "t", "version": "1"}, "paths": paths, "components": {"schemas": comps}}
    res = sut.generate(doc, cfg={"literal_enums": literal})
    ctx.sample = case
    ctx.label(f"pool:{pool}", f"route:{route}")
    try:
        if res.exc is not None:
            ctx.skip("generator_crashed")  # C06
            ctx.label("crash:" + res.exc_site["exc"])
            return
        if not res.accepted:
            ctx.skip("rejected")
            return
        ctx.nontrivial([kind, pool, repr(v), route, literal, case.get("shape", "plain")])
        diagnosed = bool(res.errors)
        op = {"method": "get", "path": "/items"}
        pkg = None
        try:
            pkg = sut.Loaded(res.package_dir)
            pkg.models
        except BaseException as e:  # noqa: BLE001
            if behave._is_ctl(e):
                raise
            if pool in ("valid", "lenient"):
                ctx.violation("default.package_imports", {**site, "exc": type(e).__name__}, repr(e)[:300])
            elif pool in ("nonfinite", "quote", "boolish"):
                ctx.violation("default.package_imports", {**site, "exc": type(e).__name__}, repr(e)[:300])
            else:
                ctx.violation("invalid.not_emitted", {**site, "how": "import_fails"}, repr(e)[:300])
            if pkg is not None:
                pkg.close()
            return
        with pkg:
            present, got = _observe(pkg, res, route, op, ctx)
            if case.get("shape") == "twin" and present:
                _check_twin(ctx, site, pkg, res, route, op, kind, case["twin_default"], literal)
            if pool == "valid" or pool == "quote":
                if diagnosed:
                    ctx.violation("valid.no_diagnostic", site, res.diag_text()[:300])
                    return
                if not present:
                    ctx.violation("valid.piece_generated", site)
                    return
                _compare(ctx, site, kind, v, got, literal)
                _encoded(ctx, site, pkg, res, route, kind, v, op)
            elif pool in ("invalid", "nonfinite", "boolish"):
                if present and got is not _NO:
                    ctx.violation("invalid.rejected", {**site, "vtype": type(v).__name__}, f"default {v!r} emitted as {got!r}; diagnostics={res.diag_text()[:150]!r}")
                elif not diagnosed:
                    ctx.violation("invalid.diagnosed", {**site, "vtype": type(v).__name__}, f"default {v!r}: no diagnostic, piece absent")
            elif pool == "lenient":
                if diagnosed and not present:
                    ctx.label("lenient:rejected")
                elif present and got is not _NO:
                    ctx.label("lenient:accepted")
                    _compare(ctx, site, kind, v, got, literal)
                elif not diagnosed:
                    ctx.violation("lenient.either", site, f"{v!r}: neither emitted nor diagnosed")
    finally:
        env.rm(res.out)


_NO = object()


def _check_twin(ctx, site, pkg, res, route, op, kind, d1, literal):
    """The earlier declaration of the same enum class keeps its own default, whatever the later one declares."""
    if route == "model":
        # the twin is a component used nowhere else: its default has no Python carrier; only the cell itself is observable
        return
    er = locate.find_endpoint(res, op)
    if er is None:
        return
    try:
        sig = inspect.signature(pkg.mod(er.module).sync_detailed)
    except BaseException as e:  # noqa: BLE001
        if behave._is_ctl(e):
            raise
        return
    other = "header" if route != "header" else "query"
    py = er.pynames.get((other, "X-Pp" if route == "header" else "pp"))
    if py is None or py not in sig.parameters:
        ctx.violation("twin.present", site, f"the {other} parameter pp is missing")
        return
    d = sig.parameters[py].default
    if d is inspect.Parameter.empty or d is pkg.types.UNSET:
        ctx.violation("twin.keeps_own_default", site, f"declared {d1!r}, Python default absent")
    elif not json_eq(value_json(d), d1):
        ctx.violation("twin.keeps_own_default", site, f"declared {d1!r}, got {d!r}")


def _observe(pkg, res, route, op, ctx):
    """(piece present?, default value or _NO)."""
    if route == "model":
        H = getattr(pkg.models, "Holder", None)
        if H is None:
            return False, _NO
        try:
            o = H()
        except BaseException as e:  # noqa: BLE001
            if behave._is_ctl(e):
                raise
            return True, ("<constructor raised>", repr(e))
        got = getattr(o, "pp", _NO)
        if got is pkg.types.UNSET:
            return True, _NO
        return True, got
    er = locate.find_endpoint(res, op)
    if er is None:
        return False, _NO
    try:
        mod = pkg.mod(er.module)
    except BaseException as e:  # noqa: BLE001
        if behave._is_ctl(e):
            raise
        return True, ("<endpoint import raised>", repr(e))
    sig = inspect.signature(mod.sync_detailed)
    name = "X-Pp" if route == "header" else "pp"
    py = er.pynames.get((route, name))
    if py is None or py not in sig.parameters:
        return True, _NO
    d = sig.parameters[py].default
    if d is inspect.Parameter.empty or d is pkg.types.UNSET:
        return True, _NO
    return True, d


def _compare(ctx, site, kind, v, got, literal):
    if got is _NO:
        ctx.violation("default.emitted", site, f"declared {v!r} but the Python default is UNSET/absent")
        return
    if kind == "union" and isinstance(v, str):
        ctx.label("ambiguous_union_default")
        return
    if kind == "any":
        if not json_eq(got, v):
            ctx.violation("default.equal_typed_value", site, f"declared {v!r}, got {got!r}")
        return
    try:
        exp = expected_json(kind, v)
    except Exception:
        return
    if exp is None:
        return
    if not same(exp, value_json(got)):
        ctx.violation("default.equal_typed_value", site, f"declared {v!r}, expected {exp!r}, got {got!r}")
    elif not type_ok(kind, got, literal):
        ctx.violation("default.typed", site, f"declared {v!r}, got {type(got).__name__} {got!r}")


def _encoded(ctx, site, pkg, res, route, kind, v, op):
    """Omitting the argument encodes exactly the declared default."""
    try:
        exp = expected_json(kind, v)
    except Exception:
        return
    if exp is None:
        return
    if route == "model":
        try:
            enc = pkg.models.Holder().to_dict()
        except BaseException as e:  # noqa: BLE001
            if behave._is_ctl(e):
                raise
            ctx.violation("default.encodes", {**site, "exc": type(e).__name__}, repr(e)[:200])
            return
        if "pp" not in enc:
            ctx.violation("default.encodes", site, f"{enc!r} lacks pp")
            return
        got = enc["pp"]
        if isinstance(exp, tuple):
            from dateutil.parser import isoparse

            try:
                ok = isoparse(got) == exp[1]
            except Exception:
                ok = False
        else:
            ok = json_eq(got, exp)
        if not ok:
            ctx.violation("default.encodes", site, f"declared {v!r}, encoded {got!r}")
    elif route == "query":
        er = locate.find_endpoint(res, op)
        if er is None:
            return
        mod = pkg.mod(er.module)
        cap = http.Capture()
        client = http.make_client(pkg, cap, secured=False)
        try:
            mod.sync_detailed(client=client)
        except BaseException as e:  # noqa: BLE001
            if behave._is_ctl(e):
                raise
            ctx.violation("default.sent", {**site, "exc": type(e).__name__}, repr(e)[:200])
            return
        finally:
            http.close_client(client)
        q = dict(cap.requests[0]["query"]) if cap.requests else {}
        if "pp" not in q:
            ctx.violation("default.sent", site, f"query {q!r} lacks pp")
            return
        text = q["pp"]
        skind = {"enum_str": {"k": "enum", "base": "str"}, "enum_int": {"k": "enum", "base": "int"},
                 "enum_str_null": {"k": "enum", "base": "str"}, "enum_int_null": {"k": "enum", "base": "int"},
                 "ref_enum": {"k": "enum", "base": "str"}}.get(kind, {"k": kind})
        if kind == "union":
            skind = {"k": "bool"} if isinstance(v, bool) else {"k": "int"}
        try:
            parsed = http.parse_back(text, skind, {})
            if isinstance(exp, tuple):
                ok = parsed == exp[1]
            elif kind == "num":
                ok = float(parsed) == float(exp)
            else:
                ok = json_eq(parsed, exp) or str(parsed) == str(exp)
        except Exception:
            ok = False
        if not ok:
            ctx.violation("default.sent", site, f"declared {v!r}, sent {text!r}")
