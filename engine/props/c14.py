"""C14 - enumerations and constants admit exactly the declared values."""
from __future__ import annotations

import copy
import enum
import typing

from hypothesis import strategies as st

from .. import behave, env, sut
from ..gen.instances import json_eq

ID = "C14"
BUDGET = {"quick": 960, "thorough": 16000}
RULE = ("value lists of 1-6 strings over a wide alphabet (case-only / punctuation-only / leading-digit differences, empty "
        "string, non-ASCII, keywords, 'mro'/'name'/'value') or integers (negative, zero, large), with/without null, "
        "inline / component / referenced through an allOf wrapper, required and optional holder property, both enum styles; "
        "consts of string/int/float/bool type with and without a `type` keyword. Per case: every listed value is decoded "
        "and re-encoded through a holder model, and 6-10 unlisted near-miss values (case variants, padded, other JSON types, "
        "bool for int, null) must be rejected. An evaluation = one decode probe. Non-trivial = list has >=2 values or a "
        "null or a non-identifier character. distinct = hash(style, values, null, placement).")
ASSUMPTIONS = [
    "a generator crash or a diagnostic for the enum is not judged here (C06/C07); the case is counted and skipped",
    "backslash and line-break characters in values are used with the Literal style only (the Enum-class template escapes double quotes only: C05 findings); quotes, braces, backticks and tabs are used with both styles",
    "values whose member names coincide before sanitising and survive sanitising unchanged (a/A, value_1 next to the value that gets the positional name VALUE_1) are generated on purpose: the unchanged generator refuses them (known crash, C06), a silent merge is reported",
    "negatives are unequal to every listed value under JSON equality (1.0 is not a negative for member 1)",
    "enums with a null member are probed with negatives only while the finding covering them is stale",
]

_live: set[str] = set()


def configure(live_ids, tier, opts):
    global _live
    _live = set(live_ids)


SPECIAL = ["a", "A", "a ", " a", "a-b", "a b", "a_b", "a.b", "a%", "1st", "1", "01", "", " ", "-", "_", "mro", "name", "value",
           "None", "none", "True", "class", "def", "é", "É", "ß", "SS", "中", "x" * 30, "a/b", "a:b", "#", "$x", "1.0", "-1",
           "VALUE_0", "VALUE_1", "fi", "ﬁ", "İ", "i", "I", 'say "hi"', '"', "it's", "'", '""', "{x}", "`"]
SAFE_ALPHA = "abAB01 _-.%$#/:+*()[]<>|~!?,;=@&^éßİ中"
FULL_ALPHA = SAFE_ALPHA + "'\"\\\n\t{}`"
CLASS_ALPHA = SAFE_ALPHA + "'\"\t{}`"     # what the Enum-class template can carry (no backslash, no line break)


def _key(v):
    """Conservative: values whose derived member names could coincide share this key."""
    import re
    import unicodedata

    s = unicodedata.normalize("NFKC", str(v)).upper()
    return re.sub(r"[^A-Z0-9]", "", s)


def raw_key(v, i):
    """The member name the generator derives before sanitising (reference copy of the documented rule)."""
    return v.upper() if (isinstance(v, str) and v and v[0].isalpha()) else f"VALUE_{i}"


def _drop_sanitised_collisions(vals):
    seen, kept = set(), []
    for v in vals:
        k = _key(raw_key(v, len(kept)))
        if k in seen or not k:
            continue
        seen.add(k)
        kept.append(v)
    return kept or ["a"]


def name_flags(vals) -> dict:
    import re

    rks = [raw_key(v, i) for i, v in enumerate(vals)]
    dup = {k for k in rks if rks.count(k) > 1}
    # the generator's duplicate check compares the *unsanitised* name of a value with the *sanitised* names stored so far, so it
    # only fires for names that sanitising leaves unchanged (plain ASCII letters, VALUE_<n>); every other coincidence, before or
    # after sanitising, is merged silently (KF-C14-04)
    if dup and all(re.fullmatch(r"[A-Z]+|VALUE_\d+", k) for k in dup):
        return {"equal_raw_member_names": True}
    sks = [_key(k) for k in rks]
    if len(set(sks)) != len(sks):
        return {"coinciding_member_names": True}
    return {}


@st.composite
def enum_case(draw):
    literal = draw(st.booleans())
    base = draw(st.sampled_from(["str", "str", "int"]))
    if base == "str":
        alpha = FULL_ALPHA if literal else CLASS_ALPHA
        vals = draw(st.lists(st.one_of(st.sampled_from(SPECIAL), st.text(alphabet=alpha, max_size=6)), min_size=1, max_size=6, unique=True))
        if not literal:
            # the Enum-class template writes values between double quotes after escaping double quotes only: backslash and line
            # breaks there are C05's findings; quotes, braces, backticks and tabs are fine
            vals = [v for v in vals if not any(c in v for c in "\\\n\r")] or ["a"]
        coincide = draw(st.integers(0, 5)) == 0
        if not coincide or "KF-C14-04" in _live:
            # member names that coincide only *after* sanitising are silently merged (KF-C14-04): keep them apart
            vals = _drop_sanitised_collisions(vals)
        if coincide:
            # two values whose member names coincide *before* sanitising ('a'/'A'; 'value_1' next to a value that gets the
            # positional name VALUE_1): the generator refuses those (diagnostic / known crash) - it must never merge them silently
            mode = draw(st.sampled_from(["positional", "case"]))
            alpha = [v for v in vals if v and v[0].isalpha() and v.swapcase() != v]
            if mode == "case" and alpha:
                src = draw(st.sampled_from(alpha))
                if src.swapcase() not in vals:
                    vals = vals + [src.swapcase()]
            else:
                i = draw(st.integers(0, len(vals)))
                filler = draw(st.sampled_from(["1st", "", "-x", "_a", "9", "%"]))
                spelled = draw(st.sampled_from(["value_{}", "VALUE_{}", "Value_{}"])).format(i if i > 0 else 1)
                vals = [v for v in vals if v not in (filler, spelled)]
                i = min(i, len(vals)) if i > 0 else 1
                vals = ([spelled] + vals)[:i] + [filler] + ([spelled] + vals)[i:]
    else:
        vals = draw(st.lists(st.one_of(st.integers(-5, 5), st.integers(-2**40, 2**40)), min_size=1, max_size=6, unique=True))
    return {"kind": "enum", "literal": literal, "base": base, "values": vals, "null": draw(st.integers(0, 3)) == 0,
            "place": draw(st.sampled_from(["inline", "component", "wrapped", "union_with_model", "component_in_union"])), "required": draw(st.booleans()),
            "typed": draw(st.booleans()), "v31": draw(st.booleans()),
            # the 3.0 keyword 'nullable: true' beside an enum that does not list null: null is still not one of the values
            "nullable_keyword": draw(st.integers(0, 3)) == 0}


@st.composite
def const_case(draw):
    v = draw(st.one_of(st.sampled_from(["fixed", "", "A b", "é"]), st.text(alphabet=SAFE_ALPHA, max_size=5), st.integers(-3, 3),
                       st.sampled_from([1.5, -0.25, 2.0]), st.booleans()))
    return {"kind": "const", "value": v, "typed": draw(st.booleans()), "required": draw(st.booleans()), "literal": draw(st.booleans()),
            # the const as one alternative of a union: with null (either order) or with a model
            "union": draw(st.sampled_from([None, None, "null_first", "null_last", "with_model", "two_consts"]))}


@st.composite
def enum_pair_case(draw):
    """Two enum schemas whose derived class names coincide (same title) and whose member names coincide too
    (case variants / positional VALUE_i names) while the wire values differ: must be diagnosed or kept apart."""
    mode = draw(st.sampled_from(["case", "positional", "same", "int"]))
    if mode == "case":
        a = draw(st.lists(st.sampled_from(["open", "closed", "pending", "done"]), min_size=1, max_size=3, unique=True))
        b = [v.upper() for v in a]
    elif mode == "positional":
        a = draw(st.lists(st.sampled_from(["1x", "2x", "3x"]), min_size=1, max_size=3, unique=True))
        b = [f"{i + 1}0GB" for i in range(len(a))]
    elif mode == "int":
        a = draw(st.lists(st.integers(0, 5), min_size=1, max_size=3, unique=True))
        b = list(a)
    else:
        a = draw(st.lists(st.sampled_from(["open", "closed", "pending"]), min_size=1, max_size=3, unique=True))
        b = list(a)
    return {"kind": "enum_pair", "a": a, "b": b, "mode": mode, "literal": draw(st.booleans()),
            "via": draw(st.sampled_from(["title", "inline_vs_component"])), "swap": draw(st.booleans())}


def strategy(tier):
    return st.one_of(enum_case(), enum_case(), enum_case(), const_case(), enum_pair_case())


def _run_pair(case, ctx):
    a, b = (case["b"], case["a"]) if case.get("swap") else (case["a"], case["b"])
    ty = "integer" if isinstance(a[0], int) else "string"
    if case["via"] == "title":
        schemas = {"E1": {"type": ty, "enum": a, "title": "State"}, "E2": {"type": ty, "enum": b, "title": "State"},
                   "Holder1": {"type": "object", "properties": {"ee": {"$ref": "#/components/schemas/E1"}}},
                   "Holder2": {"type": "object", "properties": {"ee": {"$ref": "#/components/schemas/E2"}}}}
    else:
        schemas = {"Holder1": {"type": "object", "properties": {"ee": {"type": ty, "enum": a}}},
                   "Holder1Ee": {"type": ty, "enum": b},
                   "Holder2": {"type": "object", "properties": {"ee": {"$ref": "#/components/schemas/Holder1Ee"}}}}
    doc = {"openapi": "3.0.3", "info": {"title": "t", "version": "1"}, "paths": {}, "components": {"schemas": schemas}}
    res = sut.generate(doc, cfg={"literal_enums": bool(case.get("literal"))})
    site = {"kind": "enum_pair", "mode": case["mode"], "style": "literal" if case.get("literal") else "class", "via": case["via"]}
    try:
        if res.exc is not None:
            ctx.skip("generator_crashed")
            return
        if not res.accepted:
            ctx.skip("rejected")
            return
        ctx.nontrivial(case)
        ctx.sample = case
        ctx.label("enum_pair:" + case["mode"])
        try:
            pkg = sut.Loaded(res.package_dir)
            models = pkg.models
        except BaseException as e:  # noqa: BLE001
            if behave._is_ctl(e):
                raise
            ctx.violation("package.imports", {"exc": type(e).__name__}, repr(e)[:300])   # the documents are in the domain: a package that cannot be imported decides the property negatively
            return
        with pkg:
            for hn, vals, others in (("Holder1", a, b), ("Holder2", b, a)):
                H = getattr(models, hn, None)
                if H is None:
                    if not res.errors:
                        ctx.violation("pair.dropped_silently", site, hn)
                    else:
                        ctx.label("pair:diagnosed")
                    continue
                for v in vals:
                    ctx.evals()
                    try:
                        o = H.from_dict({"ee": v})
                        raw = o.ee.value if isinstance(o.ee, enum.Enum) else o.ee
                        if not json_eq(raw, v) or not json_eq(o.to_dict().get("ee"), v):
                            ctx.violation("listed.decodes_to_itself", site, f"{hn}: {v!r} -> {o.ee!r}")
                    except BaseException as e:  # noqa: BLE001
                        if behave._is_ctl(e):
                            raise
                        ctx.violation("listed.accepted", {**site, "exc": type(e).__name__}, f"{hn}: {v!r}: {e!r}"[:300])
                for v in others:
                    if any(json_eq(v, w) for w in vals):
                        continue
                    ctx.evals()
                    try:
                        o = H.from_dict({"ee": v})
                    except BaseException as e:  # noqa: BLE001
                        if behave._is_ctl(e):
                            raise
                        continue
                    ctx.violation("unlisted.rejected", {**site, "neg": "other_enums_value"}, f"{hn}: {v!r} accepted as {o.ee!r}")
    finally:
        env.rm(res.out)


LEAF = {"type": "object", "required": ["lf"], "properties": {"lf": {"type": "string"}}, "additionalProperties": False}


def _doc(case):
    ver = "3.1.0" if case.get("v31") else "3.0.3"
    if case["kind"] == "const":
        v = case["value"]
        sch = {"const": v}
        if case.get("typed"):
            sch["type"] = {str: "string", bool: "boolean", int: "integer", float: "number"}[type(v)]
        schemas = {}
        if case.get("union") in ("null_first", "null_last"):
            sch = {"oneOf": [{"type": "null"}, sch] if case["union"] == "null_first" else [sch, {"type": "null"}]}
            ver = "3.1.0"
        elif case.get("union") == "two_consts":
            sch = {"oneOf": [sch, {**sch, "const": other_const(v)}]}
        elif case.get("union") == "with_model":
            sch = {"oneOf": [sch, {"$ref": "#/components/schemas/Leaf"}]}
            schemas["Leaf"] = copy.deepcopy(LEAF)
        schemas["Holder"] = {"type": "object", "properties": {"ee": sch}, **({"required": ["ee"]} if case["required"] else {})}
    else:
        vals = list(case["values"]) + ([None] if case["null"] else [])
        e = {"enum": vals}
        if case.get("typed", True):
            e["type"] = "string" if case["base"] == "str" else "integer"
        if case.get("nullable_keyword") and not case["null"] and not case.get("v31"):
            e["nullable"] = True
        schemas = {}
        if case["place"] == "inline":
            prop = e
        elif case["place"] == "union_with_model":
            prop = {"oneOf": [e, {"$ref": "#/components/schemas/Leaf"}]}
            schemas["Leaf"] = copy.deepcopy(LEAF)
        elif case["place"] == "component_in_union":
            schemas["Kind"] = e
            schemas["Leaf"] = copy.deepcopy(LEAF)
            prop = {"anyOf": [{"$ref": "#/components/schemas/Leaf"}, {"$ref": "#/components/schemas/Kind"}]}
        else:
            schemas["Kind"] = e
            prop = {"$ref": "#/components/schemas/Kind"} if case["place"] == "component" else {"allOf": [{"$ref": "#/components/schemas/Kind"}]}
        schemas["Holder"] = {"type": "object", "properties": {"ee": prop}, **({"required": ["ee"]} if case["required"] else {})}
    return {"openapi": ver, "info": {"title": "t", "version": "1"}, "paths": {}, "components": {"schemas": schemas}}


def other_const(v):
    """A second constant of the same JSON type (the other alternative of a union of two consts)."""
    if isinstance(v, bool):
        return not v
    if isinstance(v, str):
        return v + "2"
    return v + 10


def _listed(case) -> list:
    if case["kind"] == "enum":
        return case["values"]
    return [case["value"]] + ([other_const(case["value"])] if case.get("union") == "two_consts" else [])


def negatives(case) -> list:
    vals = _listed(case)
    cands: list = [True, False, 0, 1, "zzz", ""]
    for v in vals[:3]:
        if isinstance(v, str):
            cands += [v + " ", " " + v, v.upper(), v.lower(), v.swapcase(), v + v, v[:-1]]
        elif isinstance(v, bool):
            cands += [not v, int(v), str(v), str(v).lower()]
        elif isinstance(v, int):
            cands += [v + 1000, -v - 7, str(v), v + 0.5, [v]]
        elif isinstance(v, float):
            cands += [v + 1, str(v), -v - 3]
    cands = cands[:14] + [-1, 2.5, [], {}, {"a": 1}]
    null_ok = bool(case.get("null")) or case.get("union") in ("null_first", "null_last")
    if not null_ok:
        cands.append(None)
    out = []
    for c in cands:
        if any(json_eq(c, v) for v in vals):
            continue
        if c is None and null_ok:
            continue
        if not any(json_eq(c, o) and type(c) is type(o) for o in out):
            out.append(c)
    return out[:16]


def _neg_kind(c, case) -> str:
    base_int = (case.get("base") == "int") or (case["kind"] == "const" and isinstance(case["value"], int) and not isinstance(case["value"], bool))
    if isinstance(c, bool) and base_int:
        return "bool_int_confusion"
    if case["kind"] == "const" and isinstance(case["value"], bool) and isinstance(c, (int, float)) and not isinstance(c, bool) and c == case["value"]:
        return "bool_int_confusion"
    if isinstance(c, bool):
        return "bool"
    if c is None:
        return "null"
    if isinstance(c, (list, dict)):
        return "container"
    if isinstance(c, (int, float)) and (case.get("base") == "str" or (case["kind"] == "const" and isinstance(case["value"], str))):
        return "number_for_string"
    if isinstance(c, str) and base_int:
        return "string_for_int"
    return "near_miss"


def run(case, ctx):
    if case["kind"] == "enum_pair":
        return _run_pair(case, ctx)
    doc = _doc(case)
    res = sut.generate(doc, cfg={"literal_enums": bool(case.get("literal"))})
    site0 = {"kind": case["kind"], "style": "literal" if case.get("literal") else "class"}
    if case["kind"] == "enum":
        site0.update({"base": case["base"], "null": bool(case["null"])})
        if case["base"] == "str":
            site0.update(name_flags(case["values"]))
            if site0.get("equal_raw_member_names"):
                ctx.label("equal_raw_member_names")
    else:
        site0.update({"ctype": type(case["value"]).__name__, "typed": bool(case.get("typed"))})
        if case.get("union") == "two_consts":
            site0["union_of_consts"] = True
    try:
        if res.exc is not None:
            ctx.skip("generator_crashed")
            ctx.label("crash:" + res.exc_site["exc"])
            return
        if not res.accepted or res.errors:
            ctx.skip("diagnosed")
            return
        try:
            pkg = sut.Loaded(res.package_dir)
            models = pkg.models
        except BaseException as e:  # noqa: BLE001
            if behave._is_ctl(e):
                raise
            ctx.violation("package.imports", {"exc": type(e).__name__}, repr(e)[:300])   # the documents are in the domain: a package that cannot be imported decides the property negatively
            ctx.label("import_failed:" + type(e).__name__)
            return
        with pkg:
            Holder = getattr(models, "Holder", None)
            if Holder is None:
                ctx.skip("holder_missing")
                return
            listed = _listed(case)
            # --- every listed value decodes to itself and re-encodes to the same JSON value
            members = set()
            for v in listed + ([None] if (case.get("null") or case.get("union") in ("null_first", "null_last")) else []):
                ctx.evals()
                try:
                    o = Holder.from_dict({"ee": v})
                    got = o.ee
                    if v is None:
                        if got is not None:
                            ctx.violation("null.is_none", site0, repr(got))
                    else:
                        raw = got.value if isinstance(got, enum.Enum) else got
                        if not json_eq(raw, v) or type(raw) is not type(v):
                            ctx.violation("listed.decodes_to_itself", site0, f"{v!r} -> {got!r}")
                        if isinstance(got, enum.Enum):
                            members.add(type(got))
                        elif case["kind"] == "enum" and not case.get("literal"):
                            # Enum-class style: a listed value is held as the member, not as the bare wire value
                            ctx.violation("listed.decodes_to_member", site0, f"{v!r} -> {type(got).__name__} {got!r}")
                    enc = o.to_dict()
                    if "ee" not in enc or not json_eq(enc["ee"], v):
                        ctx.violation("listed.reencodes", site0, f"{v!r} -> {enc!r}")
                except BaseException as e:  # noqa: BLE001
                    if behave._is_ctl(e):
                        raise
                    ctx.violation("listed.accepted", {**site0, "exc": type(e).__name__, "null_value": v is None}, f"{v!r}: {e!r}"[:300])
            # --- one member per value
            if case["kind"] == "enum":
                if not case.get("literal"):
                    for cls in members:
                        mv = [m.value for m in cls]
                        if len(mv) != len(set(listed)) or not all(any(json_eq(a, b) for b in mv) for a in listed):
                            ctx.violation("members.exactly_the_values", site0, f"{mv!r} vs {listed!r}"[:300])
                else:
                    alias = None
                    for nm in dir(models):
                        obj = getattr(models, nm)
                        if typing.get_origin(obj) is typing.Literal:
                            alias = obj
                    if alias is not None:
                        args = list(typing.get_args(alias))
                        if len(args) != len(set(listed)) or set(map(repr, args)) != set(map(repr, listed)):
                            ctx.violation("members.exactly_the_values", site0, f"{args!r} vs {listed!r}"[:300])
            # --- unlisted values are rejected
            if case.get("null") and "KF-C14-01" in _live and not ctx.replay:
                ctx.exclude("KF-C14-01")
            else:
                for c in negatives(case):
                    ctx.evals()
                    try:
                        o = Holder.from_dict({"ee": c})
                    except BaseException as e:  # noqa: BLE001
                        if behave._is_ctl(e):
                            raise
                        continue
                    ctx.violation("unlisted.rejected", {**site0, "neg": _neg_kind(c, case)}, f"{c!r} accepted as {o.ee!r} (listed {listed!r})"[:300])
            nontriv = len(listed) >= 2 or case.get("null") or any(isinstance(v, str) and not v.isidentifier() for v in listed)
            if nontriv:
                ctx.nontrivial(case)
                ctx.sample = case
            ctx.label(f"{case['kind']}:{site0['style']}")
    finally:
        env.rm(res.out)
