"""C15 - allOf composition is the conjunction of its members."""
from __future__ import annotations

import copy
import datetime as dt
import enum
import inspect
import itertools
import typing
import uuid

from hypothesis import strategies as st

from .. import behave, env, sut
from ..gen import docs, instances

ID = "C15"
BUDGET = {"quick": 480, "thorough": 8000}
RULE = ("(1) shared-property matrix: every unordered pair of 26 property kinds (any, string, date, date-time, uuid, integer, number, "
        "boolean, four string enums related as base/subset/overlap/disjoint, three string enums whose derived member names nest "
        "while their values are disjoint, two int enums, const, three arrays, two different "
        "model refs, union, inline object) declared under one name by two allOf members; each pair is generated in both member "
        "orders (quick: whole matrix with ref/ref members; Hypothesis adds requiredness, member style ref|inline, defaults, "
        "enum style, and the JSON name of the shared property: its own Python identifier or camelCase / kebab / dotted / upper-case "
        "spellings - the whole matrix is also swept under 'unitPrice'); the result must be order-independent and equal to the reference lattice's meet, or diagnosed. "
        "(2) random compositions of 2-4 members (referenced and inline, chains, parents declared after children, a child "
        "requiring an inherited optional property, own properties written next to allOf): attribute set = union of member "
        "properties, mandatory iff any member requires it, schema-valid instances round-trip. An evaluation = one generation "
        "or one round trip. Non-trivial = a shared property exists or a parent is declared after its child. distinct = cell / "
        "document hash.")
ASSUMPTIONS = [
    "results are compared semantically (kind, item kind, enum value set, referenced class, const value) read from annotations of the "
    "generated class, not by inline-enum class names (those legitimately depend on which parent declared the enum)",
    "a diagnostic is always acceptable for a pair the lattice could merge; a silent result is acceptable only if it is the meet",
]

_live: set[str] = set()


def configure(live_ids, tier, opts):
    global _live
    _live = set(live_ids)


KINDS = {
    "any": {}, "str": {"type": "string"}, "date": {"type": "string", "format": "date"},
    "datetime": {"type": "string", "format": "date-time"}, "uuid": {"type": "string", "format": "uuid"},
    "int": {"type": "integer"}, "num": {"type": "number"}, "bool": {"type": "boolean"},
    "enum_ab": {"type": "string", "enum": ["a", "b"]}, "enum_a": {"type": "string", "enum": ["a"]},
    "enum_bc": {"type": "string", "enum": ["b", "c"]}, "enum_cd": {"type": "string", "enum": ["c", "d"]},
    "ienum_12": {"type": "integer", "enum": [1, 2]}, "ienum_1": {"type": "integer", "enum": [1]},
    # enums whose derived *member names* nest (A in {A, B}; VALUE_0, VALUE_1 in VALUE_0..2) while their values are disjoint
    "enum_upA": {"type": "string", "enum": ["A"]}, "enum_pos3": {"type": "string", "enum": ["1080p", "720p", "480p"]},
    "enum_pos2": {"type": "string", "enum": ["4k", "8k"]},
    "const_x": {"const": "x"}, "arr_str": {"type": "array", "items": {"type": "string"}},
    "arr_int": {"type": "array", "items": {"type": "integer"}}, "arr_num": {"type": "array", "items": {"type": "number"}},
    "model1": {"$ref": "#/components/schemas/Leaf1"}, "model2": {"$ref": "#/components/schemas/Leaf2"},
    "union_is": {"anyOf": [{"type": "integer"}, {"type": "string"}]},
    "obj_inline": {"type": "object", "properties": {"q": {"type": "string"}}},
    "arr_model1": {"type": "array", "items": {"$ref": "#/components/schemas/Leaf1"}},
}
SEM = {"any": "any", "str": "str", "date": "date", "datetime": "datetime", "uuid": "uuid", "int": "int", "num": "float", "bool": "bool",
       "enum_ab": ("enum", ("a", "b")), "enum_a": ("enum", ("a",)), "enum_bc": ("enum", ("b", "c")), "enum_cd": ("enum", ("c", "d")),
       "ienum_12": ("enum", (1, 2)), "ienum_1": ("enum", (1,)), "enum_upA": ("enum", ("A",)),
       "enum_pos3": ("enum", ("1080p", "720p", "480p")), "enum_pos2": ("enum", ("4k", "8k")), "const_x": ("lit", ("x",)), "arr_str": ("list", "str"),
       "arr_int": ("list", "int"), "arr_num": ("list", "float"), "model1": ("model", "Leaf1"), "model2": ("model", "Leaf2"),
       "union_is": ("union", ("int", "str")), "obj_inline": ("model", "<inline>"), "arr_model1": ("list", ("model", "Leaf1"))}


def meet(a: str, b: str):
    """Reference lattice. Returns the kind name of the meet, or None when the pair has no representable conjunction."""
    if a == b:
        return a
    if a == "any":
        return b
    if b == "any":
        return a
    pair = {a, b}
    if pair == {"int", "num"}:
        return "int"
    if pair in ({"str", "date"}, {"str", "datetime"}, {"str", "uuid"}):
        return (pair - {"str"}).pop()
    for e, base in (("enum_ab", "str"), ("enum_a", "str"), ("enum_bc", "str"), ("enum_cd", "str"), ("ienum_12", "int"), ("ienum_1", "int"),
                    ("enum_upA", "str"), ("enum_pos3", "str"), ("enum_pos2", "str")):
        if pair == {e, base}:
            return e
    if pair == {"enum_ab", "enum_a"}:
        return "enum_a"
    if pair == {"ienum_12", "ienum_1"}:
        return "ienum_1"
    if pair == {"arr_int", "arr_num"}:
        return "arr_int"
    return None


def pairs():
    ks = sorted(KINDS)
    return [(a, b) for i, a in enumerate(ks) for b in ks[i:]]


def sweep(tier):
    out = [{"kind": "pair", "a": a, "b": b, "req": [False, False], "style": "ref_ref", "literal": False, "defaults": False}
           for a, b in pairs()]
    # pairs that have a conjunction: every requiredness combination x member style (x requiredness given by a separate member)
    for a, b in pairs():
        if meet(a, b) is None:
            continue
        for req in ([True, False], [False, True], [True, True], [False, False]):
            for style in ("ref_ref", "ref_inline", "inline_ref", "inline_inline"):
                if req == [False, False] and style == "ref_ref":
                    continue
                out.append({"kind": "pair", "a": a, "b": b, "req": req, "style": style, "literal": False, "defaults": False})
        out.append({"kind": "pair", "a": a, "b": b, "req": [True, False], "style": "inline_inline", "literal": False,
                    "defaults": False, "req_split": True})
    # pairs that have a conjunction, with a default on both declarations (a default is converted again when properties merge)
    for a, b in pairs():
        if meet(a, b) is None:
            continue
        for style in ("ref_ref", "inline_inline"):
            for literal in (False, True):
                out.append({"kind": "pair", "a": a, "b": b, "req": [False, False], "style": style, "literal": literal, "defaults": True})
    # every pair once more under a JSON name that is not its own Python identifier
    for a, b in pairs():
        out.append({"kind": "pair", "a": a, "b": b, "req": [True, False], "style": "ref_inline", "literal": False, "defaults": False,
                    "name": "unitPrice"})
    return out + shape_cases()


@st.composite
def pair_case(draw):
    a, b = draw(st.sampled_from(pairs()))
    return {"kind": "pair", "a": a, "b": b, "req": [draw(st.booleans()), draw(st.booleans())],
            "style": draw(st.sampled_from(["ref_ref", "ref_inline", "inline_ref", "inline_inline"])),
            "literal": draw(st.booleans()), "defaults": draw(st.integers(0, 3)) == 0, "req_split": draw(st.integers(0, 3)) == 0,
            "name": draw(st.sampled_from(sorted(PROP_NAMES)))}


@st.composite
def composition_case(draw):
    prof = docs.profile(max_schemas=5, max_props=3, max_ops=0, max_depth=1, allof=True, affix_names=2, allof_one_in=2)
    ir = draw(docs.doc_ir(prof, min_schemas=3, min_ops=0))
    objs = [i for i, (n, s) in enumerate(ir["schemas"]) if s["k"] == "object"]
    # force at least one composition, possibly with 2 parents and inline members; allow "sibling" style
    comps = docs.comp_map(ir)
    for idx in objs:
        n, s = ir["schemas"][idx]
        if s.get("allOf") and draw(st.integers(0, 3)) == 0 and "KF-C15-03" not in _live:
            s["allof_style"] = "sibling"
        if s.get("allOf") and draw(st.integers(0, 2)) == 0:
            s["req_split"] = True   # own 'required' list written as a separate inline member
    insts = []
    for name, s in ir["schemas"]:
        if s["k"] == "object" and s.get("allOf"):
            for i in range(3):
                try:
                    insts.append([name, draw(instances.instance(s, comps, 0, ["none", "all", "random"][i]))])
                except instances.Unsatisfiable:
                    break
    return {"kind": "composition", "ir": ir, "insts": insts, "cfg": {}}


def strategy(tier):
    return st.one_of(pair_case(), composition_case())


# ------------------------------------------------------------------------------------------------ semantic reading

def norm_ann(ann, models, Unset, depth=0):
    if depth > 6:
        return "?"
    if ann is typing.Any:
        return "any"
    if ann is type(None) or ann is None:
        return "none"
    if ann is Unset:
        return "unset"
    origin = typing.get_origin(ann)
    if origin is typing.Union:
        parts = [norm_ann(a, models, Unset, depth + 1) for a in typing.get_args(ann)]
        parts = [p for p in parts if p != "unset"]
        if len(parts) == 1:
            return parts[0]
        return ("union", tuple(sorted(map(str, parts))))
    if origin is typing.Literal:
        return ("lit", tuple(sorted(typing.get_args(ann), key=repr)))
    if origin in (list, typing.List):
        (item,) = typing.get_args(ann) or (typing.Any,)
        return ("list", norm_ann(item, models, Unset, depth + 1))
    if isinstance(ann, typing.ForwardRef):
        ann = ann.__forward_arg__
    if isinstance(ann, str):
        cls = getattr(models, ann.strip("'\""), None)
        if cls is None:
            return ("model", ann.strip("'\""))
        ann = cls
    if isinstance(ann, type):
        if issubclass(ann, enum.Enum):
            return ("enum", tuple(sorted((m.value for m in ann), key=repr)))
        if hasattr(ann, "from_dict"):
            return ("model", ann.__name__)
        return {int: "int", float: "float", str: "str", bool: "bool", dt.date: "date", dt.datetime: "datetime", uuid.UUID: "uuid"}.get(ann, ann.__name__)
    # a Literal alias object of the literal_enums style
    args = typing.get_args(ann)
    if args:
        return ("lit", tuple(sorted(args, key=repr)))
    return str(ann)


def expected_sem(kind: str, literal: bool):
    s = SEM[kind]
    if literal and isinstance(s, tuple) and s[0] == "enum":
        return ("lit", tuple(sorted(s[1], key=repr)))
    if isinstance(s, tuple) and s[0] == "enum":
        return ("enum", tuple(sorted(s[1], key=repr)))
    if isinstance(s, tuple) and s[0] == "union":
        return ("union", tuple(sorted(s[1])))
    return s


def sem_equal(a, b) -> bool:
    def canon(x):
        if isinstance(x, tuple) and x and x[0] == "model" and (x[1] == "<inline>" or x[1].startswith(("P1", "P2", "Child"))):
            return ("model", "<inline>")
        if isinstance(x, tuple):
            return tuple(canon(y) for y in x)
        return x
    return canon(a) == canon(b)


SAMPLES = {"any": 5, "str": "s", "date": "2020-01-02", "datetime": "2020-01-02T03:04:05", "uuid": "12345678-1234-5678-1234-567812345678",
           "int": 3, "num": 1.5, "bool": True, "enum_ab": "a", "enum_a": "a", "enum_bc": "b", "enum_cd": "c", "ienum_12": 1, "ienum_1": 1,
           "enum_upA": "A", "enum_pos3": "720p", "enum_pos2": "8k", "const_x": "x", "arr_str": ["x"], "arr_int": [1], "arr_num": [1.5], "model1": {"l1": "x"}, "model2": {"l2": 2},
           "union_is": 3, "obj_inline": {"q": "z"}, "arr_model1": [{"l1": "x"}]}


# JSON name of the shared property -> the attribute it becomes (names that are not their own Python identifier matter: the
# generator keys its bookkeeping by JSON name in one place and by Python name in another)
PROP_NAMES = {"sp": "sp", "unitPrice": "unit_price", "unit-price": "unit_price", "Unit.Price": "unit_price", "SP": "sp", "X-Sp": "x_sp"}


def _pair_doc(case, order):
    a, b = case["a"], case["b"]
    nm = case.get("name", "sp")
    sa, sb = copy.deepcopy(KINDS[a]), copy.deepcopy(KINDS[b])
    ra, rb = case["req"]
    if case.get("defaults"):
        for k, s in ((a, sa), (b, sb)):
            if (k in ("str", "int", "num", "bool", "date", "datetime", "uuid") or "enum" in k) and "$ref" not in s:
                s["default"] = SAMPLES[k]
    split = bool(case.get("req_split")) and case.get("style") == "inline_inline"
    P1 = {"type": "object", "properties": {nm: sa, "only1": {"type": "string"}}, **({"required": [nm]} if ra and not split else {})}
    P2 = {"type": "object", "properties": {nm: sb, "only2": {"type": "integer"}}, **({"required": [nm]} if rb and not split else {})}
    style = case.get("style", "ref_ref")
    m1 = {"$ref": "#/components/schemas/P1"} if style.startswith("ref") else P1
    m2 = {"$ref": "#/components/schemas/P2"} if style.endswith("ref") else P2
    members = [m1, m2] if order == 0 else [m2, m1]
    schemas = {"Leaf1": {"type": "object", "properties": {"l1": {"type": "string"}}},
               "Leaf2": {"type": "object", "properties": {"l2": {"type": "integer"}}},
               "P1": P1, "P2": P2,
               "Child": {"allOf": members + [{"type": "object", "properties": {"own": {"type": "boolean"}}}]
                         + ([{"required": [nm]}] if split and (ra or rb) else [])}}
    return {"openapi": "3.0.3", "info": {"title": "t", "version": "1"}, "paths": {}, "components": {"schemas": schemas}}


def _observe_pair(case, order, ctx):
    """('diag', text) | ('crash', ..) | ('gen', semantic, required, parents_sem)."""
    res = sut.generate(_pair_doc(case, order), cfg={"literal_enums": bool(case.get("literal"))})
    ctx.evals()
    try:
        if res.exc is not None:
            return ("crash", res.exc_site)
        if not res.accepted:
            return ("rejected", res.diag_text()[:200])
        try:
            pkg = sut.Loaded(res.package_dir)
            models = pkg.models
        except BaseException as e:  # noqa: BLE001
            if behave._is_ctl(e):
                raise
            return ("import_failed", repr(e)[:200])
        with pkg:
            Child = getattr(models, "Child", None)
            if Child is None:
                return ("diag", res.diag_text()[:300]) if res.errors else ("missing_silently", "")
            import attrs

            Unset = pkg.types.Unset
            ftypes = {f.name: f.type for f in attrs.fields(Child)}
            nm = case.get("name", "sp")
            py = PROP_NAMES[nm]
            if py not in ftypes:
                return ("attr_missing", sorted(ftypes))
            sem = norm_ann(ftypes[py], models, Unset)
            sig = inspect.signature(Child)
            required = sig.parameters[py].default is inspect.Parameter.empty
            parents = {}
            for pn in ("P1", "P2"):
                P = getattr(models, pn, None)
                if P is not None:
                    pt = {f.name: f.type for f in attrs.fields(P)}
                    parents[pn] = norm_ann(pt.get(py), models, Unset)
            names = sorted(ftypes)
            # behaviour: a sample valid for both members round-trips
            rt = None
            m = meet(case["a"], case["b"])
            if m is not None:
                inst = {nm: SAMPLES[m], "only1": "o", "only2": 2, "own": True}
                stage, r = behave._attempt(Child, inst)
                if stage is not None:
                    rt = ("raises", stage, type(r).__name__)
                elif not instances.json_eq(r[1], inst):
                    rt = ("differs", instances.first_diff(inst, r[1]))
            return ("gen", sem, required, parents, names, rt, bool(res.errors))
    finally:
        env.rm(res.out)


def _promotes_inherited(s: dict, comps: dict, seen: frozenset = frozenset()) -> bool:
    """True when this composition, or one it inherits from, lists an inherited property under 'required' in an inline
    member (the shape behind KF-C15-02: the promotion is lost there and in every model composed from it)."""
    if s.get("extra_required"):
        return True
    for m in s.get("allOf") or []:
        if m.get("k") == "ref" and m["name"] in comps and m["name"] not in seen:
            if _promotes_inherited(comps[m["name"]], comps, seen | {m["name"]}):
                return True
    return False


# ------------------------------------------------------------------------------------------------ composition shapes
# How a composition is *written*: every shape declares the same facts (which properties, which of them required); the composed
# class must have every property and require exactly the required ones. Where the shape is a property's schema (inline, possibly
# nullable) the class is the one the holder's decoder builds.
_BASE = {"type": "object", "properties": {"baseName": {"type": "string"}, "baseNote": {"type": "string"}}, "required": ["baseName"]}
_REF = {"$ref": "#/components/schemas/ShapeBase"}
_OWN = {"type": "object", "properties": {"ownCount": {"type": "integer"}, "ownFlag": {"type": "boolean"}}, "required": ["ownCount"]}
_OWN2 = {"type": "object", "properties": {"moreText": {"type": "string"}}}
SHAPES = {
    # name: (schema, expected {property: required})
    "ref_and_inline": ({"allOf": [_REF, _OWN]}, {"baseName": True, "baseNote": False, "ownCount": True, "ownFlag": False}),
    "single_inline_with_sibling_properties": ({"allOf": [_OWN], "properties": {"moreText": {"type": "string"}}, "required": ["moreText"]},
                                              {"ownCount": True, "ownFlag": False, "moreText": True}),
    "single_inline_with_sibling_required": ({"allOf": [_OWN], "required": ["ownFlag"]}, {"ownCount": True, "ownFlag": True}),
    "single_inline_typed_with_siblings": ({"type": "object", "allOf": [_OWN], "properties": {"moreText": {"type": "string"}}},
                                          {"ownCount": True, "ownFlag": False, "moreText": False}),
    "two_inline_with_siblings": ({"allOf": [_OWN, _OWN2], "properties": {"sibText": {"type": "string"}}, "required": ["sibText", "moreText"]},
                                 {"ownCount": True, "ownFlag": False, "moreText": True, "sibText": True}),
    "ref_inline_and_sibling_required": ({"allOf": [_REF, _OWN], "required": ["baseNote", "ownFlag"]},
                                        {"baseName": True, "baseNote": True, "ownCount": True, "ownFlag": True}),
    "typed_object_with_allof": ({"type": "object", "allOf": [_REF, _OWN]}, {"baseName": True, "baseNote": False, "ownCount": True, "ownFlag": False}),
    "three_members": ({"allOf": [_REF, _OWN, _OWN2]}, {"baseName": True, "baseNote": False, "ownCount": True, "ownFlag": False, "moreText": False}),
}
NULLABLE_NOTATIONS = ("none", "nullable_30", "typelist_31", "typelist_31_null_first")


def _snake(s_: str) -> str:
    import re as _re

    return _re.sub(r"(?<=[a-z0-9])(?=[A-Z])", "_", s_).lower()


def shape_cases():
    out = []
    for shape in SHAPES:
        out.append({"kind": "shape", "shape": shape, "position": "component", "nullable": "none"})
        for nn in NULLABLE_NOTATIONS:
            for req in (True, False):
                out.append({"kind": "shape", "shape": shape, "position": "property", "nullable": nn, "required": req})
    return out


def _shape_doc(case):
    import copy as _c

    sch, _ = SHAPES[case["shape"]]
    sch = _c.deepcopy(sch)
    nn = case["nullable"]
    ver = "3.1.0" if nn.startswith("typelist") else "3.0.3"
    if nn == "nullable_30":
        sch = {"type": "object", "nullable": True, **sch}
    elif nn == "typelist_31":
        sch = {**sch, "type": ["object", "null"]}
    elif nn == "typelist_31_null_first":
        sch = {**sch, "type": ["null", "object"]}
    schemas = {"ShapeBase": _c.deepcopy(_BASE)}
    if case["position"] == "component":
        schemas["Composed"] = sch
    else:
        schemas["Holder"] = {"type": "object", "properties": {"inner": sch, "tag": {"type": "string"}}, **({"required": ["inner"]} if case.get("required") else {})}
    return {"openapi": ver, "info": {"title": "t", "version": "1"}, "paths": {}, "components": {"schemas": schemas}}


def _run_shape(case, ctx):
    _, expected = SHAPES[case["shape"]]
    site = {"shape": case["shape"], "position": case["position"], "nullable": case["nullable"]}
    res = sut.generate(_shape_doc(case), cfg={})
    ctx.evals()
    ctx.label("shape:" + case["shape"], "shape_position:" + case["position"], "shape_nullable:" + case["nullable"])
    ctx.nontrivial([case["shape"], case["position"], case["nullable"], case.get("required")])
    full = {"baseName": "n", "baseNote": "x", "ownCount": 3, "ownFlag": True, "moreText": "m", "sibText": "s"}
    inst = {k: full[k] for k in expected}
    try:
        if res.exc is not None or not res.accepted:
            ctx.violation("composed.valid_composition_generated", {**site, "why": "rejected_or_crashed"}, (repr(res.exc) if res.exc else res.diag_text())[:300])
            return
        try:
            pkg = sut.Loaded(res.package_dir)
            models = pkg.models
        except BaseException as e:  # noqa: BLE001
            if behave._is_ctl(e):
                raise
            ctx.violation("composed.package_imports", {**site, "exc": type(e).__name__}, repr(e)[:300])
            return
        with pkg:
            if case["position"] == "component":
                cls = getattr(models, "Composed", None)
                if cls is None:
                    ctx.violation("composed.valid_composition_generated" if "Composed" in res.diag_text() else "composed.accounted_for", site, res.diag_text()[:300])
                    return
                obj = None
            else:
                Holder = getattr(models, "Holder", None)
                if Holder is None:
                    ctx.violation("composed.valid_composition_generated" if "Holder" in res.diag_text() else "composed.accounted_for", site, res.diag_text()[:300])
                    return
                try:
                    obj = Holder.from_dict({"inner": dict(inst), "tag": "t"}).inner
                except BaseException as e:  # noqa: BLE001
                    if behave._is_ctl(e):
                        raise
                    ctx.violation("composed.decode.raises", {**site, "exc": type(e).__name__}, repr(e)[:300])
                    return
                cls = type(obj)
                if not hasattr(cls, "from_dict"):
                    ctx.violation("composed.all_properties", {**site, "why": "not_a_model"}, f"inner decoded to {cls.__name__}: {obj!r}"[:300])
                    return
            sig = inspect.signature(cls)
            have = set(sig.parameters)
            missing = [k for k in expected if _snake(k) not in have and k not in have]
            if missing:
                ctx.violation("composed.all_properties", site, f"{cls.__name__}({', '.join(sig.parameters)}) lacks {missing}")
                return
            mand = {n for n, p_ in sig.parameters.items() if p_.default is inspect.Parameter.empty}
            want = {_snake(k) for k, r in expected.items() if r}
            if mand != want:
                ctx.violation("required.if_any_member_requires", site, f"{cls.__name__}: mandatory {sorted(mand)} vs required {sorted(want)}")
            # round trip, and a required key that is missing must be refused
            try:
                enc = cls.from_dict(dict(inst)).to_dict()
                if not instances.json_eq(enc, inst):
                    ctx.violation("composed.roundtrip.encode_equals", site, f"{inst!r} -> {enc!r}"[:300])
            except BaseException as e:  # noqa: BLE001
                if behave._is_ctl(e):
                    raise
                ctx.violation("composed.decode.raises", {**site, "exc": type(e).__name__}, repr(e)[:300])
            for k, r in expected.items():
                if not r:
                    continue
                try:
                    cls.from_dict({kk: vv for kk, vv in inst.items() if kk != k})
                except BaseException as e:  # noqa: BLE001
                    if behave._is_ctl(e):
                        raise
                    continue
                ctx.violation("required.missing_key_refused", {**site}, f"{cls.__name__} decoded without required {k}")
            if case["position"] == "property" and case["nullable"] != "none":
                try:
                    got = Holder.from_dict({"inner": None, "tag": "t"}).inner
                    if got is not None:
                        ctx.violation("composed.null_is_none", site, repr(got)[:200])
                except BaseException as e:  # noqa: BLE001
                    if behave._is_ctl(e):
                        raise
                    ctx.violation("composed.null_is_none", {**site, "exc": type(e).__name__}, repr(e)[:200])
    finally:
        env.rm(res.out)


def run(case, ctx):
    if case["kind"] == "pair":
        _run_pair(case, ctx)
    elif case["kind"] == "shape":
        _run_shape(case, ctx)
    else:
        _run_composition(case, ctx)


def _run_pair(case, ctx):
    a, b = case["a"], case["b"]
    literal = bool(case.get("literal"))
    o0 = _observe_pair(case, 0, ctx)
    o1 = _observe_pair(case, 1, ctx) if a != b or True else o0
    m = meet(a, b)
    site = {"a": a, "b": b, "meet": m or "none", "style": case.get("style", "ref_ref")}
    ctx.nontrivial([a, b, case["req"], case.get("style"), literal, case.get("defaults"), case.get("name", "sp")])
    if case.get("name", "sp") != "sp":
        ctx.label("shared_name_not_an_identifier")
    ctx.sample = case
    ctx.label("pair:meet" if m else "pair:no_meet")
    for k_order, o in enumerate((o0, o1)):
        if o[0] == "import_failed":
            # the composition was accepted without a diagnostic, yet the package holding it cannot be imported
            ctx.violation("composed.package_imports", {**site, "defaults": bool(case.get("defaults"))}, f"order {k_order}: {o[1]}")
            return
        if o[0] in ("crash", "rejected"):
            ctx.skip("generator_" + o[0])
            return
    kinds = (o0[0], o1[0])
    if "missing_silently" in kinds or "attr_missing" in kinds:
        ctx.violation("composed.accounted_for", site, f"{o0[:2]!r} / {o1[:2]!r}")
        return
    if kinds == ("diag", "diag"):
        ctx.label("outcome:both_diagnosed")
        return
    if kinds[0] != kinds[1]:
        ctx.violation("shared.order_independent", {**site, "how": "diagnostic_in_one_order"}, f"[A,B] {o0[0]}, [B,A] {o1[0]}")
        return
    # both generated
    _, s0, r0, p0, n0, rt0, _w0 = o0
    _, s1, r1, p1, n1, rt1, _w1 = o1
    if not sem_equal(s0, s1):
        ctx.violation("shared.order_independent", {**site, "how": "different_type"}, f"[A,B] {s0!r} vs [B,A] {s1!r}")
    if m is None:
        ctx.violation("shared.no_silent_arbitrary_choice", site, f"no conjunction exists, got {s0!r} / {s1!r} without diagnostic")
    else:
        exp = expected_sem(m, literal)
        for s in (s0, s1):
            if not sem_equal(s, exp):
                ctx.violation("shared.narrowest_type", site, f"expected {exp!r}, got {s!r}")
                break
    want_req = any(case["req"])
    for r in (r0, r1):
        if case.get("defaults"):
            break   # a declared default legitimately gives the parameter a default even when required
        if r != want_req:
            ctx.violation("required.if_any_member_requires", {**site, "req": case["req"]}, f"mandatory={r}, members require {case['req']}")
            break
    for n in (n0, n1):
        if not {PROP_NAMES[case.get("name", "sp")], "only1", "only2", "own"} <= set(n):
            ctx.violation("composed.all_properties", site, f"{n!r}")
            break
    for rt in (rt0, rt1):
        if rt is not None:
            ctx.violation("composed.roundtrip", {**site, "how": rt[0]}, repr(rt)[:300])
            break
    # the parents' own classes keep their own declared type (label only; judged by C11)
    for p in (p0, p1):
        if p.get("P1") is not None and not sem_equal(p["P1"], expected_sem(a, literal)):
            ctx.label("parent_annotation_rewritten")


def _run_composition(case, ctx):
    ir = case["ir"]
    comps = docs.comp_map(ir)
    res = sut.generate(docs.render(ir), cfg=case.get("cfg") or {})
    ctx.evals()
    try:
        if res.exc is not None or not res.accepted:
            ctx.skip("generator_rejected_or_crashed")
            return
        try:
            pkg = sut.Loaded(res.package_dir)
            models = pkg.models
        except BaseException as e:  # noqa: BLE001
            if behave._is_ctl(e):
                raise
            ctx.violation("package.imports", {"exc": type(e).__name__}, repr(e)[:300])   # the documents are in the domain: a package that cannot be imported decides the property negatively
            return
        names = [n for n, _ in ir["schemas"]]
        with pkg:
            import attrs

            for name, s in ir["schemas"]:
                if s["k"] != "object" or not s.get("allOf"):
                    continue
                style = s.get("allof_style", "member")
                site = {"style": style, "own_props": bool(s.get("props")), "extra_required": _promotes_inherited(s, comps)}
                cls = getattr(models, name, None)
                if cls is None:
                    if name in res.diag_text():
                        # these compositions are valid by construction (acyclic, no shared property names): the members have a
                        # conjunction, so refusing one - however audibly - does not deliver it
                        ctx.label("diagnosed")
                        ctx.violation("composed.valid_composition_generated", site, f"{name} refused: {res.diag_text()[:200]}")
                    else:
                        ctx.violation("composed.accounted_for", site, f"{name} neither generated nor diagnosed")
                    continue
                props, _ = instances.flatten_object(s, comps)
                sig = inspect.signature(cls)
                # attribute set: one constructor parameter per member property
                if len([p for p in sig.parameters]) < len(props):
                    ctx.violation("composed.all_properties", site, f"{name}: {len(sig.parameters)} attributes for {len(props)} properties {[p[0] for p in props]}")
                    continue
                # requiredness: number of mandatory parameters equals number of required properties (defaults are not generated here)
                n_req = sum(1 for p in props if p[2])
                n_mand = sum(1 for p in sig.parameters.values() if p.default is inspect.Parameter.empty)
                if n_req != n_mand:
                    ctx.violation("required.if_any_member_requires", site, f"{name}: {n_mand} mandatory parameters, {n_req} required properties")
                parent_after = any(m["k"] == "ref" and m["name"] in names and names.index(m["name"]) > names.index(name) for m in s["allOf"])
                ctx.nontrivial([docs.render_schema(s, ir["version"]), name])
                ctx.label("composition", "parent_after_child" if parent_after else "parent_before_child")
                ctx.sample = {"kind": "composition", "child": name, "schema": docs.render_schema(s, ir["version"])}
            for name, value in case.get("insts", []):
                s = comps.get(name)
                cls = getattr(models, name, None)
                if s is None or cls is None or instances.self_check_valid(value, s, comps) is False:
                    continue
                props, _ = instances.flatten_object(s, comps)
                ctx.evals()
                site = {"style": s.get("allof_style", "member")}
                for clause, st_, detail in behave.roundtrip(cls, value, props, comps):
                    ctx.violation("composed." + clause, {**site, **{k: v for k, v in st_.items() if k in ("where", "required", "present")}}, f"{name}: {detail}"[:400])
    finally:
        env.rm(res.out)
