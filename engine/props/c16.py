"""C16 - each configuration option has exactly its documented effect."""
from __future__ import annotations

import copy
import inspect
import json
import os
import re

from hypothesis import strategies as st

from .. import behave, env, http, locate, sut
from ..gen import docs, instances

ID = "C16"
BUDGET = {"quick": 360, "thorough": 6000}
OPTIONS = ["names", "version", "class_overrides", "field_prefix", "path_prefix", "literal_enums", "docstrings", "all_tags", "content_type",
           "meta", "encoding", "custom_template", "post_hooks"]
RULE = ("generated documents x one option at a time (quick: ~28 documents per option; thorough: 460) with one metamorphic relation per "
        "option between the 'off' and 'on' generations: name overrides -> trees equal after substituting the names; version override "
        "-> only the version line of the metadata files differs; class_overrides / field_prefix / use_path_prefixes_for_title_model_names "
        "-> same number of modules and identical decode/encode results for the same instances (only rename); literal_enums / "
        "docstrings_on_attributes -> identical decode/encode results and identical request kwargs; generate_all_tags -> one identical "
        "module under every tag, nothing else changes; content_type_overrides {X: Y} (bare, parameterised, upper-case and unparseable "
        "keys) -> the document using X behaves as the document using Y and sends X; --meta -> identical package directory except "
        "py.typed; --file-encoding -> same text; --custom-template-path -> only files rendered from the overridden template differ; "
        "post_hooks -> run in order in the project directory, failing hook = error diagnostic, missing command = warning. "
        "Non-trivial = the option is applicable to the document. distinct = hash(option, value, document).")
ASSUMPTIONS = [
    "relations are stated on sets of files allowed to change, computed from the IR, never on the generator's own bookkeeping",
    "wire behaviour is compared through from_dict/to_dict outcomes of the same instances and through the kwargs the generated "
    "_get_kwargs builds for the same scalar arguments",
    "py.typed is written only when metadata is generated (documented in the generator) and is part of the expected difference",
]

_live: set[str] = set()


def configure(live_ids, tier, opts):
    global _live
    _live = set(live_ids)


@st.composite
def cases(draw, tier):
    opt = draw(st.sampled_from(OPTIONS))
    prof = docs.profile(max_schemas=4, max_props=3, max_ops=3, max_depth=1, desc=True, security=False,
                        multi_body_multipart=False, multi_body_array=False)
    ir = draw(docs.doc_ir(prof, min_schemas=2))
    comps = docs.comp_map(ir)
    insts = []
    for name, s in ir["schemas"]:
        if s["k"] != "object":
            continue
        for i in range(3):
            try:
                insts.append([name, draw(instances.instance(s, comps, 0, ["none", "all", "random"][i]))])
            except instances.Unsatisfiable:
                break
    case = {"option": opt, "ir": ir, "insts": insts}
    names_ = [n for n, _ in ir["schemas"]]
    if opt == "class_overrides":
        enums = [n for n, sc in ir["schemas"] if sc["k"] == "enum"]
        objs_ = [sc for n, sc in ir["schemas"] if sc["k"] == "object"]
        if enums and objs_ and draw(st.booleans()):
            # an enum that is actually used by a model: the override must reach every place that imports it
            case["target"] = draw(st.sampled_from(enums))
            if not any(p[1].get("k") == "ref" and p[1].get("name") == case["target"] for sc in objs_ for p in sc["props"]):
                objs_[0]["props"].append(["zqKind", {"k": "ref", "name": case["target"]}, False])
        else:
            case["target"] = draw(st.sampled_from(names_))
        case["override"] = draw(st.sampled_from([{"class_name": "ZqRenamed", "module_name": "zq_renamed_mod"}, {"class_name": "ZqRenamed"},
                                                 {"module_name": "zq_renamed_mod"}]))
        case["literal"] = draw(st.booleans())
    elif opt == "field_prefix":
        case["prefix"] = draw(st.sampled_from(["attr_", "f", "zq_"]))
    elif opt == "content_type":
        case["key"] = draw(st.sampled_from(["application/zq-thing", "application/vnd.acme.event; version=2", "Application/X-ZQ", "openapi/python/client",
                                            "text/zq+custom"]))
        case["maps_to"] = draw(st.sampled_from(["application/json", "application/octet-stream"]))
        case["side"] = draw(st.sampled_from(["request", "response"]))
    elif opt == "encoding":
        case["encoding"] = draw(st.sampled_from(["utf-16", "utf-32", "utf-8-sig"]))  # encodings able to represent every template character
    elif opt == "custom_template":
        case["template"] = draw(st.sampled_from(["errors.py.jinja", "str_enum.py.jinja", "types.py.jinja"]))
        case["encoding"] = draw(st.sampled_from(["utf-8", "utf-8", "utf-16", "cp1252"]))
    elif opt == "meta":
        case["metas"] = draw(st.lists(st.sampled_from(["none", "poetry", "pdm", "setup"]), min_size=2, max_size=3, unique=True))
    elif opt == "post_hooks":
        case["hooks"] = draw(st.sampled_from(["order", "failing", "missing"]))
    elif opt in ("names", "version"):
        case["meta"] = draw(st.sampled_from(["poetry", "pdm", "setup"]))
    return case


def strategy(tier):
    return cases(tier)


_OBJ = lambda props, **kw: {"k": "object", "props": props, "addl": None, "allOf": [], **kw}  # noqa: E731
FIXED_IR = {
    "version": "3.0.3", "title": "Verif API",
    "schemas": [["Kind", {"k": "enum", "base": "str", "values": ["aa", "bb"], "null": False}],
                ["Level", {"k": "enum", "base": "int", "values": [1, 2], "null": False}],
                ["Leaf", _OBJ([["mike", {"k": "str"}, False], ["level", {"k": "ref", "name": "Level"}, False],
                               # a declaration far longer than any wrapping width, with a description (for docstrings_on_attributes)
                               ["note", {"k": "str", "default": "lorem ipsum dolor sit amet " * 6, "desc": "a note that is described at some length " * 4}, False]])],
                ["Alpha", _OBJ([["kind", {"k": "ref", "name": "Kind"}, True], ["leaf", {"k": "ref", "name": "Leaf"}, False],
                                ["kinds", {"k": "array", "items": {"k": "ref", "name": "Kind"}}, False],
                                ["when", {"k": "date"}, False]])]],
    "ops": [{"path": "/items/{oscar}", "method": "get", "opid": "fetchThing", "tags": ["tagone", "tagtwo"], "summary": "", "security": False,
             "params": [{"name": "oscar", "in": "path", "required": True, "schema": {"k": "str"}, "level": "op"},
                        {"name": "papa", "in": "query", "required": False, "schema": {"k": "int"}, "level": "op"},
                        {"name": "kindFilter", "in": "query", "required": False, "schema": {"k": "ref", "name": "Kind"}, "level": "op"}],
             "body": None, "responses": [[200, ["application/json", {"k": "ref", "name": "Alpha"}]]]}],
}
FIXED_INSTS = [["Alpha", {"kind": "aa"}], ["Alpha", {"kind": "bb", "leaf": {"mike": "x", "level": 2}, "kinds": ["aa", "bb"], "when": "2020-01-02"}],
               ["Leaf", {}], ["Leaf", {"mike": "y", "level": 1}]]


def sweep(tier):
    """Every option with each of its value shapes on one fixed, reference-rich document (deterministic part)."""
    base = lambda **kw: {"ir": copy.deepcopy(FIXED_IR), "insts": copy.deepcopy(FIXED_INSTS), **kw}  # noqa: E731
    out = []
    for target in ("Kind", "Level", "Leaf", "Alpha"):
        for lit in (False, True):
            for ov in ({"class_name": "ZqRenamed", "module_name": "zq_renamed_mod"}, {"class_name": "ZqRenamed"}, {"module_name": "zq_renamed_mod"}):
                out.append(base(option="class_overrides", target=target, override=ov, literal=lit))
    for key in ("application/zq-thing", "application/vnd.acme.event; version=2", "Application/X-ZQ", "openapi/python/client", "text/zq+custom"):
        for maps_to in ("application/json", "application/octet-stream"):
            for side in ("request", "response"):
                out.append(base(option="content_type", key=key, maps_to=maps_to, side=side))
    # keys that are media types the generator knows natively: the override re-purposes them all the same
    for key, maps_to in (("application/octet-stream", "application/json"), ("application/json", "application/octet-stream"),
                         ("text/plain", "application/json"), ("application/x-www-form-urlencoded", "application/json"),
                         ("application/vnd.api+json", "application/octet-stream")):   # (not multipart/form-data: it cannot be "sent as itself" without a boundary)
        for side in ("request", "response"):
            out.append(base(option="content_type", key=key, maps_to=maps_to, side=side))
    for pfx in ("attr_", "f", "zq_"):
        out.append(base(option="field_prefix", prefix=pfx))
    for enc in ("utf-16", "utf-32", "utf-8-sig"):
        out.append(base(option="encoding", encoding=enc))
    for t in ("errors.py.jinja", "str_enum.py.jinja", "types.py.jinja"):
        out.append(base(option="custom_template", template=t))
        # ... and together with an output encoding: templates are UTF-8 files whatever encoding the output is written in
        for enc in ("utf-16", "cp1252"):
            out.append(base(option="custom_template", template=t, encoding=enc))
    for h in ("order", "failing", "missing"):
        out.append(base(option="post_hooks", hooks=h))
    for m in ("poetry", "pdm", "setup"):
        out.append(base(option="names", meta=m))
        for proj in ("zqproj-name", "Acme-Billing-SDK", "zqCamelProj", "ZQ-v2-api"):
            out.append(base(option="names", meta=m, project=proj, package=None))
        out.append(base(option="version", meta=m))
    out.append(base(option="meta", metas=["none", "poetry", "pdm", "setup"]))
    for o in ("path_prefix", "literal_enums", "docstrings", "all_tags"):
        out.append(base(option=o))
    return out


# ------------------------------------------------------------------------------------------------ helpers

def gen(doc, cfg=None, meta="none", **kw):
    return sut.generate(doc, cfg=cfg or {}, meta=meta, pkg_name="pkg", **kw)


def behaviour(res, ir, insts, pkg=None):
    """Decode/encode outcomes of the instances + kwargs of scalar-argument endpoints: a JSON-comparable observation."""
    comps = docs.comp_map(ir)
    obs = {"models": [], "ops": []}
    own = pkg is None
    try:
        pkg = pkg or sut.Loaded(res.package_dir)
    except BaseException as e:  # noqa: BLE001
        if behave._is_ctl(e):
            raise
        return {"import_failed": type(e).__name__ + ": " + str(e)[:120]}
    try:
        try:
            models = pkg.models
        except BaseException as e:  # noqa: BLE001
            if behave._is_ctl(e):
                raise
            return {"import_failed": type(e).__name__ + ": " + str(e)[:120]}
        classes = _classes_by_component(res, models, ir)
        for name, value in insts:
            s = comps.get(name)
            if s is None or instances.self_check_valid(value, s, comps) is False:
                continue
            cls = classes.get(name)
            if cls is None:
                obs["models"].append([name, "class_missing"])
                continue
            stage, r = behave._attempt(cls, value)
            obs["models"].append([name, ["raises", stage, type(r).__name__]] if stage else [name, ["ok", r[1]]])
        for op in ir["ops"]:
            er = locate.find_endpoint(res, op)
            if er is None:
                obs["ops"].append([op["method"], op["path"], "missing"])
                continue
            try:
                mod = pkg.mod(er.module)
            except BaseException as e:  # noqa: BLE001
                if behave._is_ctl(e):
                    raise
                obs["ops"].append([op["method"], op["path"], "import_failed:" + type(e).__name__])
                continue
            kwargs = {}
            ok = True
            for p in op["params"]:
                py = er.pynames.get((p["in"], p["name"]))
                k = p["schema"].get("k")
                if py is None:
                    ok = False
                    break
                if k in ("str", "int", "num", "bool"):
                    kwargs[py] = {"str": "v", "int": 3, "num": 1.5, "bool": True}[k]
                elif p["required"]:
                    ok = False
                    break
            if not ok or op.get("body"):
                obs["ops"].append([op["method"], op["path"], "skipped"])
                continue
            try:
                kw = mod._get_kwargs(**kwargs)
                obs["ops"].append([op["method"], op["path"], json.loads(json.dumps(kw, default=str, sort_keys=True))])
            except BaseException as e:  # noqa: BLE001
                if behave._is_ctl(e):
                    raise
                obs["ops"].append([op["method"], op["path"], "raises:" + type(e).__name__])
    finally:
        if own:
            pkg.close()
    return obs


def _classes_by_component(res, models, ir):
    """component name -> class, located through the description marker-free route: class name from the generator's class table."""
    out = {}
    for n, s in ir["schemas"]:
        cls = getattr(models, n, None)
        if cls is not None:
            out[n] = cls
    return out


def py_count(snap):
    return sum(1 for k in snap if k.endswith(".py"))


def run(case, ctx):
    opt = case["option"]
    ctx.label("option:" + opt)
    globals()["_opt_" + opt](case, ctx)


def _base(case, ctx, cfg=None, meta="none"):
    doc = docs.render(case["ir"])
    a = gen(doc, cfg=cfg, meta=meta)
    ctx.evals()
    if a.exc is not None or not a.accepted:
        ctx.skip("generator_rejected_or_crashed")
        env.rm(os.path.dirname(a.out))
        return None, None
    return doc, a


def _cleanup(*rs):
    for r in rs:
        if r is not None:
            env.rm(os.path.dirname(r.out))


def _nontrivial(case, ctx, extra=None):
    ctx.nontrivial([case["option"], extra, docs.render(case["ir"])])
    ctx.sample = {"option": case["option"], "value": extra, "schemas": [n for n, _ in case["ir"]["schemas"]]}


# ---- renaming options ---------------------------------------------------------------------------

def _opt_names(case, ctx):
    meta = case.get("meta", "poetry")
    doc, a = _base(case, ctx, meta=meta)
    if a is None:
        return
    proj = case.get("project", "zqproj-name")
    pkg_over = case.get("package", "zqpkg_name")
    cfg = {"project_name_override": proj, **({"package_name_override": pkg_over} if pkg_over else {})}
    # documented: without a package override the package name is the project name with '-' replaced by '_'
    want_pkg = pkg_over or proj.replace("-", "_")
    b = gen(doc, cfg=cfg, meta=meta)
    ctx.evals()
    try:
        if b.exc is not None or not b.accepted:
            ctx.violation("names.same_outcome", {"option": "names"}, repr(b.exc or b.diag_text())[:200])
            return
        if not os.path.isdir(os.path.join(b.out, want_pkg)):
            ctx.violation("names.package_directory_as_documented", {"option": "names", "meta": meta, "package_override": bool(pkg_over)},
                          f"project {proj!r}: expected package directory {want_pkg!r}, found {sorted(os.listdir(b.out))}")
            return

        def subst(snap, proj, pkg):
            out = {}
            for k, v in snap.items():
                k2 = k.replace(pkg, "<PKG>").replace(proj, "<PROJ>")
                try:
                    t = v.decode("utf-8").replace(pkg, "<PKG>").replace(proj, "<PROJ>")
                    out[k2] = t
                except UnicodeDecodeError:
                    out[k2] = v
            return out
        sa = subst(sut.snapshot(a.out), "verif-api-client", "verif_api_client")
        sb = subst(sut.snapshot(b.out), proj, want_pkg)
        if proj == want_pkg:
            # a project name without dashes is its own package name: the two placeholders cannot be told apart
            sa = {k.replace("<PROJ>", "<PKG>"): (v.replace("<PROJ>", "<PKG>") if isinstance(v, str) else v) for k, v in sa.items()}
            sb = {k.replace("<PROJ>", "<PKG>"): (v.replace("<PROJ>", "<PKG>") if isinstance(v, str) else v) for k, v in sb.items()}
        if sa != sb:
            diff = sorted(k for k in set(sa) | set(sb) if sa.get(k) != sb.get(k))
            ctx.violation("names.only_rename", {"option": "names", "meta": meta}, str(diff[:5]))
        _nontrivial(case, ctx, meta)
    finally:
        _cleanup(a, b)


def _opt_version(case, ctx):
    meta = case.get("meta", "poetry")
    doc, a = _base(case, ctx, meta=meta)
    if a is None:
        return
    b = gen(doc, cfg={"package_version_override": "9.8.7"}, meta=meta)
    ctx.evals()
    try:
        if b.exc is not None or not b.accepted:
            ctx.violation("version.same_outcome", {"option": "version"}, repr(b.exc or b.diag_text())[:200])
            return
        sa, sb = sut.snapshot(a.out), sut.snapshot(b.out)
        for k in sorted(set(sa) | set(sb)):
            if sa.get(k) == sb.get(k):
                continue
            if os.path.basename(k) not in ("pyproject.toml", "setup.py"):
                ctx.violation("version.only_metadata_files", {"option": "version", "meta": meta}, k)
                continue
            la, lb = sa[k].decode().splitlines(), (sb.get(k) or b"").decode().splitlines()
            changed = [(x, y) for x, y in zip(la, lb) if x != y]
            if len(la) != len(lb) or any("version" not in x for x, _ in changed) or any("9.8.7" not in y for _, y in changed):
                ctx.violation("version.only_version_line", {"option": "version", "meta": meta}, f"{k}: {changed[:3]}")
        found = any(b"9.8.7" in v for k, v in sb.items() if os.path.basename(k) in ("pyproject.toml", "setup.py"))
        if not found and meta != "none":
            ctx.violation("version.applied", {"option": "version", "meta": meta}, "override not found in metadata")
        _nontrivial(case, ctx, meta)
    finally:
        _cleanup(a, b)


def _compare_behaviour(ctx, case, a, b, option, site=None, rename=None):
    oa = behaviour(a, case["ir"], case["insts"])
    ob = behaviour(b, case["ir"], case["insts"])
    if rename:
        ob = rename(ob)
    site = {"option": option, **(site or {})}
    if "import_failed" in ob and "import_failed" not in oa:
        ctx.violation(option + ".package_still_imports", site, ob["import_failed"])
        return
    if "import_failed" in oa:
        ctx.skip("base_import_failed")
        return
    if oa["models"] != ob["models"]:
        bad = [(x, y) for x, y in zip(oa["models"], ob["models"]) if x != y][:2]
        ctx.violation(option + ".same_wire_behaviour", {**site, "what": "models"}, str(bad)[:400])
    if oa["ops"] != ob["ops"]:
        bad = [(x, y) for x, y in zip(oa["ops"], ob["ops"]) if x != y][:2]
        ctx.violation(option + ".same_wire_behaviour", {**site, "what": "requests"}, str(bad)[:400])


def _opt_class_overrides(case, ctx):
    lit = bool(case.get("literal"))
    doc, a = _base(case, ctx, cfg={"literal_enums": lit})
    if a is None:
        return
    target = case["target"]
    b = gen(doc, cfg={"literal_enums": lit, "class_overrides": {target: case["override"]}})
    ctx.evals()
    try:
        if b.exc is not None or not b.accepted:
            ctx.violation("class_overrides.same_outcome", {"option": "class_overrides"}, repr(b.exc or b.diag_text())[:200])
            return
        if len(a.errors) != len(b.errors):
            ctx.violation("class_overrides.same_diagnostics", {"option": "class_overrides"}, b.diag_text()[:200])
        sa, sb = sut.snapshot(a.out), sut.snapshot(b.out)
        if py_count(sa) != py_count(sb):
            ctx.violation("class_overrides.same_number_of_modules", {"option": "class_overrides"}, f"{py_count(sa)} vs {py_count(sb)}")
        kind = docs.comp_map(case["ir"])[target]["k"]
        site = {"target_kind": kind, "literal": lit, "module_renamed": "module_name" in case["override"]}
        # the renamed class is reachable under its new name; every other class keeps its name
        new_name = case["override"].get("class_name", target)

        def rename(ob):
            return ob
        try:
            with sut.Loaded(b.package_dir) as pb:
                pb.models
                if not (kind == "enum" and lit) and not hasattr(pb.models, new_name):
                    ctx.violation("class_overrides.class_renamed", {"option": "class_overrides", **site}, f"models.{new_name} missing")
                if "module_name" in case["override"]:
                    if not os.path.exists(os.path.join(b.package_dir, "models", "zq_renamed_mod.py")):
                        ctx.violation("class_overrides.module_renamed", {"option": "class_overrides", **site}, "models/zq_renamed_mod.py missing")
                # behaviour with the renamed class looked up under its new name
                ir2 = copy.deepcopy(case["ir"])
                oa = behaviour(a, case["ir"], case["insts"])
                ob = _behaviour_renamed(b, pb, case, target, new_name)
                if "import_failed" not in oa and oa != ob:
                    what = "models" if oa.get("models") != ob.get("models") else "requests"
                    ctx.violation("class_overrides.same_wire_behaviour", {"option": "class_overrides", **site, "what": what},
                                  str([(x, y) for x, y in zip(oa.get(what, []), ob.get(what, [])) if x != y][:2])[:400])
        except BaseException as e:  # noqa: BLE001
            if behave._is_ctl(e):
                raise
            ctx.violation("class_overrides.package_still_imports", {"option": "class_overrides", **site, "exc": type(e).__name__}, repr(e)[:300])
        _nontrivial(case, ctx, [target, case["override"], lit])
    finally:
        _cleanup(a, b)


def _behaviour_renamed(res, pkg, case, target, new_name):
    comps = docs.comp_map(case["ir"])
    obs = {"models": [], "ops": []}
    models = pkg.models
    for name, value in case["insts"]:
        s = comps.get(name)
        if s is None or instances.self_check_valid(value, s, comps) is False:
            continue
        cls = getattr(models, new_name if name == target else name, None)
        if cls is None:
            obs["models"].append([name, "class_missing"])
            continue
        stage, r = behave._attempt(cls, value)
        obs["models"].append([name, ["raises", stage, type(r).__name__]] if stage else [name, ["ok", r[1]]])
    rest = behaviour(res, case["ir"], [], pkg=pkg)
    obs["ops"] = rest.get("ops", [])
    return obs


def _opt_field_prefix(case, ctx):
    ir = case["ir"]
    # make the option applicable: a property and a parameter whose names need the prefix
    objs = [s for n, s in ir["schemas"] if s["k"] == "object"]
    if objs and not any(p[0] == "1st" for p in objs[0]["props"]):
        objs[0]["props"].append(["1st", {"k": "int"}, False])
    for nm, value in case["insts"]:
        pass
    doc, a = _base(case, ctx)
    if a is None:
        return
    b = gen(doc, cfg={"field_prefix": case["prefix"]})
    ctx.evals()
    try:
        if b.exc is not None or not b.accepted:
            ctx.violation("field_prefix.same_outcome", {"option": "field_prefix"}, repr(b.exc or b.diag_text())[:200])
            return
        sa, sb = sut.snapshot(a.out), sut.snapshot(b.out)
        if py_count(sa) != py_count(sb):
            ctx.violation("field_prefix.same_number_of_modules", {"option": "field_prefix"}, f"{py_count(sa)} vs {py_count(sb)}")
        insts = list(case["insts"])
        if objs:
            owner = [n for n, s in ir["schemas"] if s is objs[0]][0]
            insts.append([owner, {**{p[0]: _min_value(p[1], docs.comp_map(ir)) for p in objs[0]["props"] if p[2]}, "1st": 7}])
        c2 = dict(case, insts=[i for i in insts if i[1] is not None and None not in [v for v in i[1].values()] or True])
        _compare_behaviour(ctx, c2, a, b, "field_prefix", {"prefix": case["prefix"]})
        if case["prefix"] != "field_":
            src = "\n".join(v.decode("utf-8", "replace") for k, v in sb.items() if k.endswith(".py"))
            if objs and f"{case['prefix']}1st" not in src:
                ctx.violation("field_prefix.applied", {"option": "field_prefix", "prefix": case["prefix"]}, "prefixed name not found")
        _nontrivial(case, ctx, case["prefix"])
    finally:
        _cleanup(a, b)


def _min_value(s, comps):
    k = s.get("k")
    try:
        from hypothesis import find

        return find(instances.instance(s, comps, 0, "none"), lambda v: True)
    except Exception:
        return None


def _opt_path_prefix(case, ctx):
    ir = case["ir"]
    objs = [s for n, s in ir["schemas"] if s["k"] == "object"]
    if objs:
        objs[0]["props"].append(["titledInline", {"k": "object", "props": [["deep", {"k": "str"}, False]], "addl": None, "allOf": [], "title": "Zq Titled"}, False])
    doc, a = _base(case, ctx)
    if a is None:
        return
    b = gen(doc, cfg={"use_path_prefixes_for_title_model_names": False})
    ctx.evals()
    try:
        if b.exc is not None or not b.accepted:
            ctx.violation("path_prefix.same_outcome", {"option": "path_prefix"}, repr(b.exc or b.diag_text())[:200])
            return
        sa, sb = sut.snapshot(a.out), sut.snapshot(b.out)
        if py_count(sa) != py_count(sb):
            ctx.violation("path_prefix.same_number_of_modules", {"option": "path_prefix"}, f"{py_count(sa)} vs {py_count(sb)}")
        insts = list(case["insts"])
        if objs:
            owner = [n for n, s in ir["schemas"] if s is objs[0]][0]
            req = {p[0]: _min_value(p[1], docs.comp_map(ir)) for p in objs[0]["props"] if p[2]}
            insts.append([owner, {**req, "titledInline": {"deep": "x"}}])
        _compare_behaviour(ctx, dict(case, insts=insts), a, b, "path_prefix")
        if objs and "models/zq_titled.py" not in sb:
            ctx.violation("path_prefix.applied", {"option": "path_prefix"}, str(sorted(k for k in sb if "titled" in k)))
        _nontrivial(case, ctx)
    finally:
        _cleanup(a, b)


def _opt_literal_enums(case, ctx):
    doc, a = _base(case, ctx)
    if a is None:
        return
    b = gen(doc, cfg={"literal_enums": True})
    ctx.evals()
    try:
        if b.exc is not None or not b.accepted:
            ctx.violation("literal_enums.same_outcome", {"option": "literal_enums"}, repr(b.exc or b.diag_text())[:200])
            return
        _compare_behaviour(ctx, case, a, b, "literal_enums")
        if any(s["k"] == "enum" for _, s in case["ir"]["schemas"]) or "enum" in json.dumps(case["ir"]):
            _nontrivial(case, ctx)
    finally:
        _cleanup(a, b)


def _opt_docstrings(case, ctx):
    doc, a = _base(case, ctx)
    if a is None:
        return
    b = gen(doc, cfg={"docstrings_on_attributes": True})
    ctx.evals()
    try:
        if b.exc is not None or not b.accepted:
            ctx.violation("docstrings.same_outcome", {"option": "docstrings"}, repr(b.exc or b.diag_text())[:200])
            return
        _compare_behaviour(ctx, case, a, b, "docstrings")
        sa, sb = sut.snapshot(a.out), sut.snapshot(b.out)
        if set(sa) != set(sb):
            ctx.violation("docstrings.same_files", {"option": "docstrings"}, str(sorted(set(sa) ^ set(sb))[:5]))
        _nontrivial(case, ctx)
    finally:
        _cleanup(a, b)


def _opt_all_tags(case, ctx):
    ir = case["ir"]
    if not any(len(op["tags"]) >= 2 for op in ir["ops"]):
        ir["ops"][0]["tags"] = ["tagone", "tagtwo"]
    doc, a = _base(case, ctx)
    if a is None:
        return
    b = gen(doc, cfg={"generate_all_tags": True})
    ctx.evals()
    try:
        if b.exc is not None or not b.accepted:
            ctx.violation("all_tags.same_outcome", {"option": "all_tags"}, repr(b.exc or b.diag_text())[:200])
            return
        sa, sb = sut.snapshot(a.out), sut.snapshot(b.out)
        for op in ir["ops"]:
            er = locate.find_endpoint(a, op)
            if er is None:
                continue
            modfile = er.module.split(".")[-1] + ".py"
            tags = op["tags"] or ["default"]
            first = sa.get(os.path.join("api", tags[0], modfile))
            if first is None:
                ctx.violation("all_tags.off_places_under_first_tag", {"option": "all_tags"}, f"{modfile} not under {tags[0]}")
                continue
            for t in tags:
                got = sb.get(os.path.join("api", t, modfile))
                if got != first:
                    ctx.violation("all_tags.identical_module_under_every_tag", {"option": "all_tags", "missing": got is None}, f"api/{t}/{modfile}")
            if not case.get("_checked_off"):
                for t in tags[1:]:
                    if os.path.join("api", t, modfile) in sa and t not in [x for o in ir["ops"] if o is not op for x in (o["tags"][:1] or ["default"])]:
                        ctx.violation("all_tags.off_only_first_tag", {"option": "all_tags"}, f"api/{t}/{modfile} present without the option")
        extra = {k for k in set(sa) ^ set(sb) if not k.startswith("api" + os.sep)}
        changed = {k for k in set(sa) & set(sb) if sa[k] != sb[k] and not k.startswith("api" + os.sep)}
        if extra or changed:
            ctx.violation("all_tags.nothing_else_changes", {"option": "all_tags"}, str(sorted(extra | changed)[:5]))
        _nontrivial(case, ctx)
    finally:
        _cleanup(a, b)


def _opt_content_type(case, ctx):
    """Document using X with the override {X: Y}  vs  the same document using Y without it."""
    X, Y, side = case["key"], case["maps_to"], case["side"]
    schema = {"type": "string", "format": "binary"} if Y == "application/octet-stream" else {"type": "object", "properties": {"f": {"type": "string"}}}

    def doc_for(mt):
        op = {"operationId": "sendThing", "responses": {"200": {"description": "ok"}}}
        if side == "request":
            op["requestBody"] = {"required": True, "content": {mt: {"schema": schema}}}
        else:
            op["responses"]["200"]["content"] = {mt: {"schema": schema}}
        return {"openapi": "3.0.3", "info": {"title": "Verif API", "version": "1"}, "paths": {"/send": {"post": op}}}
    a = gen(doc_for(Y))
    b = gen(doc_for(X), cfg={"content_type_overrides": {X: Y}})
    ctx.evals(2)
    native = X in ("application/json", "application/octet-stream", "text/plain", "application/x-www-form-urlencoded", "multipart/form-data", "application/vnd.api+json")
    site = {"option": "content_type", "key_shape": "native" if native else ("parameterised" if ";" in X else "upper" if X != X.lower() else "unparseable" if X.count("/") != 1 else "bare"),
            "side": side, "maps_to": Y.split("/")[1]}
    try:
        if a.exc is not None or not a.accepted or a.errors:
            ctx.skip("base_not_clean")
            return
        if b.exc is not None or not b.accepted:
            ctx.violation("content_type.same_outcome", site, repr(b.exc or b.diag_text())[:200])
            return
        if b.errors:
            ctx.violation("content_type.override_honoured", site, b.diag_text()[:300])
            return
        sa, sb = sut.snapshot(a.out), sut.snapshot(b.out)
        for k in sorted(set(sa) | set(sb)):
            if sa.get(k) == sb.get(k):
                continue
            ta, tb = (sa.get(k) or b"").decode(), (sb.get(k) or b"").decode()
            if not k.startswith("api" + os.sep) or ta.replace(Y, "<CT>") != tb.replace(X, "<CT>"):
                ctx.violation("content_type.only_the_literal_differs", site, k)
        if side == "request":
            with sut.Loaded(b.package_dir) as pb:
                mod = pb.mod("api.default.send_thing")
                cap = http.Capture()
                client = http.make_client(pb, cap, secured=False)
                try:
                    body = pb.types.File(payload=__import__("io").BytesIO(b"x")) if Y.endswith("octet-stream") else \
                        inspect.signature(mod.sync_detailed).parameters["body"].annotation.from_dict({"f": "v"})
                    mod.sync_detailed(client=client, body=body)
                    ct = http.header_map(cap.requests[0]).get("content-type", [""])[0]
                    if ct != X:
                        ctx.violation("content_type.sent_as_itself", site, f"{ct!r} vs {X!r}")
                except BaseException as e:  # noqa: BLE001
                    if behave._is_ctl(e):
                        raise
                    ctx.violation("content_type.call_works", {**site, "exc": type(e).__name__}, repr(e)[:200])
                finally:
                    http.close_client(client)
        ctx.nontrivial(["content_type", X, Y, side])
        ctx.sample = {"option": "content_type", "override": {X: Y}, "side": side}
    finally:
        _cleanup(a, b)


def _opt_meta(case, ctx):
    doc = docs.render(case["ir"])
    rs = [gen(doc, meta=m) for m in case["metas"]]
    ctx.evals(len(rs))
    try:
        if any(r.exc is not None or not r.accepted for r in rs):
            ctx.skip("generator_rejected_or_crashed")
            return
        pk = []
        for r in rs:
            s = sut.snapshot(r.package_dir)
            s.pop("py.typed", None)
            pk.append(s)
        for m, s in zip(case["metas"][1:], pk[1:]):
            if s != pk[0]:
                df = sut.diff_snap(pk[0], s)
                ctx.violation("meta.package_directory_identical", {"option": "meta", "flavours": sorted([case["metas"][0], m])[0] + "_vs_other"}, json.dumps(df)[:300])
        for m, r in zip(case["metas"], rs):
            top = {k for k in sut.snapshot(r.out) if os.sep not in k.rstrip("/")}
            if m == "none":
                continue
            want = {"pyproject.toml", "README.md", ".gitignore"} | ({"setup.py"} if m == "setup" else set())
            files = {k for k in top if not k.endswith("/")}
            if files != want:
                ctx.violation("meta.documented_metadata_files", {"option": "meta", "flavour": m}, str(sorted(files ^ want)))
        _nontrivial(case, ctx, case["metas"])
    finally:
        _cleanup(*rs)


def _opt_encoding(case, ctx):
    ir = case["ir"]
    for n, s in ir["schemas"]:
        s["desc"] = "déscription über"
    doc = docs.render(ir)
    a = gen(doc)
    b = gen(doc, encoding=case["encoding"])
    ctx.evals(2)
    try:
        if a.exc is not None or not a.accepted:
            ctx.skip("generator_rejected_or_crashed")
            return
        if b.exc is not None:
            ctx.violation("encoding.same_outcome", {"option": "encoding", "encoding": case["encoding"]}, repr(b.exc)[:200])
            return
        sa, sb = sut.snapshot(a.out), sut.snapshot(b.out)
        if set(sa) != set(sb):
            ctx.violation("encoding.same_files", {"option": "encoding", "encoding": case["encoding"]}, str(sorted(set(sa) ^ set(sb))[:5]))
        for k in sa:
            if k.endswith("/") or k not in sb:
                continue
            try:
                ta, tb = sa[k].decode("utf-8"), sb[k].decode(case["encoding"])
            except UnicodeDecodeError as e:
                ctx.violation("encoding.decodes", {"option": "encoding", "encoding": case["encoding"]}, f"{k}: {e}")
                continue
            if ta != tb:
                ctx.violation("encoding.same_text", {"option": "encoding", "encoding": case["encoding"]}, k)
        _nontrivial(case, ctx, case["encoding"])
    finally:
        _cleanup(a, b)


def _opt_custom_template(case, ctx):
    import openapi_python_client

    tname = case["template"]
    tdir = env.fresh_dir("tmpl")
    src = os.path.join(os.path.dirname(openapi_python_client.__file__), "templates", tname)
    with open(src, encoding="utf-8") as f:
        text = f.read()
    with open(os.path.join(tdir, tname), "w", encoding="utf-8") as f:
        f.write(text + "\n# ZQ-CUSTOM-TEMPLATE-MARKER g\u00e9n\u00e9r\u00e9\n")
    enc = case.get("encoding") or "utf-8"
    doc, a = _base(case, ctx)
    if a is None:
        return
    if enc != "utf-8":
        _cleanup(a)
        a = gen(doc, encoding=enc)
        if a.exc is not None or not a.accepted:
            ctx.skip("generator_rejected_or_crashed")
            _cleanup(a)
            return
    b = gen(doc, custom_templates=tdir, encoding=enc)
    ctx.evals()
    try:
        if b.exc is not None or not b.accepted:
            ctx.violation("custom_template.same_outcome", {"option": "custom_template"}, repr(b.exc or b.diag_text())[:200])
            return
        sa, sb = sut.snapshot(a.out), sut.snapshot(b.out)
        allowed = {"errors.py.jinja": lambda k: k == "errors.py", "types.py.jinja": lambda k: k == "types.py",
                   "str_enum.py.jinja": lambda k: k.startswith("models" + os.sep)}[tname]
        marked = 0
        for k in sorted(set(sa) | set(sb)):
            if sa.get(k) == sb.get(k):
                continue
            if not allowed(k) or "ZQ-CUSTOM-TEMPLATE-MARKER" not in (sb.get(k) or b"").decode(enc, "replace"):
                ctx.violation("custom_template.only_files_from_that_template", {"option": "custom_template", "template": tname}, k)
            elif "ZQ-CUSTOM-TEMPLATE-MARKER g\u00e9n\u00e9r\u00e9" not in (sb.get(k) or b"").decode(enc, "replace"):
                ctx.violation("custom_template.text_reproduced", {"option": "custom_template", "template": tname, "encoding": enc}, k)
            else:
                marked += 1
        if tname != "str_enum.py.jinja" and marked == 0:
            ctx.violation("custom_template.applied", {"option": "custom_template", "template": tname}, "marker not found")
        _nontrivial(case, ctx, tname)
    finally:
        _cleanup(a, b)
        env.rm(tdir)


def _opt_post_hooks(case, ctx):
    doc = docs.render(case["ir"])
    mode = case["hooks"]
    hooks = {"order": ["sh -c 'echo 1 >> zq_order.log'", "sh -c 'echo 2 >> zq_order.log; pwd > zq_pwd.log'"],
             "failing": ["sh -c 'echo before > zq_before.log'", "sh -c 'echo boom >&2; exit 3'"],
             "missing": ["zq-no-such-command --flag", "sh -c 'echo after > zq_after.log'"]}[mode]
    r = sut.generate(doc, cfg={"post_hooks": hooks}, pkg_name="pkg", hooks=True)
    ctx.evals()
    site = {"option": "post_hooks", "mode": mode}
    try:
        if r.exc is not None:
            ctx.violation("post_hooks.no_crash", site, repr(r.exc)[:200])
            return
        levels = [(getattr(e.level, "name", str(e.level)), (e.header or "") + " " + (e.detail or "")) for e in r.errors or []]
        if mode == "order":
            p = os.path.join(r.out, "zq_order.log")
            got = open(p).read() if os.path.exists(p) else None
            if got != "1\n2\n":
                ctx.violation("post_hooks.run_in_order", site, repr(got))
            pw = os.path.join(r.out, "zq_pwd.log")
            if not os.path.exists(pw) or os.path.realpath(open(pw).read().strip()) != os.path.realpath(r.out):
                ctx.violation("post_hooks.run_in_project_directory", site, open(pw).read() if os.path.exists(pw) else "missing")
        elif mode == "failing":
            if not any(lv == "ERROR" and ("sh" in t) for lv, t in levels):
                ctx.violation("post_hooks.failing_hook_is_error", site, str(levels)[:300])
            if not any("boom" in t for _, t in levels):
                ctx.violation("post_hooks.failing_hook_output_reported", site, str(levels)[:300])
        else:
            if not any(lv == "WARNING" and "zq-no-such-command" in t for lv, t in levels):
                ctx.violation("post_hooks.missing_command_is_warning", site, str(levels)[:300])
            if not os.path.exists(os.path.join(r.out, "zq_after.log")):
                ctx.violation("post_hooks.later_hooks_still_run", site, "second hook did not run")
        _nontrivial(case, ctx, mode)
    finally:
        _cleanup(r)
