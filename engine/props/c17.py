"""C17 - equivalent documents generate identical clients."""
from __future__ import annotations

import copy
import functools
import http.server
import json
import os
import socketserver
import threading

from hypothesis import strategies as st

from .. import env, sut
from ..gen import docs

ID = "C17"
BUDGET = {"quick": 480, "thorough": 8000}
RULE = ("clean generated documents rendered twice from the same IR: a baseline notation and a rewritten one where, at every "
        "applicable position (property, items, additionalProperties, parameter schema, body/response schema, union member), a "
        "drawn choice selects among equivalent spellings: nullable:true / 3.1 type list / explicit null union member (null placed "
        "where the generator's own normaliser puts it); enum with null member / oneOf[null, enum]; bare $ref / single-element "
        "allOf|oneOf|anyOf wrapper; plus JSON vs YAML serialisation and file path vs loopback-HTTP URL source. Trees and "
        "diagnostics must be identical. Non-trivial = >=1 rewrite applied below the top level of a component. distinct = "
        "hash(IR, choices, serialisation, source).")
ASSUMPTIONS = [
    "rewrites preserve member order (a union's member order is observable and not part of 'same thing in different notation')",
    "top-level component $ref aliases are excluded (documented as unsupported)",
    "both renderings declare openapi 3.1.0 so only the notation differs",
    "nullability stated twice on an enum (nullable / type list *and* a null member) is not one of the listed notation pairs and is not generated",
    "top-level array and union components are generated too; the reference-wrapper defect there (KF-C17-01) is recognised by the shape of the rewritten document plus its diagnostic text",
    "the URL source is a loopback http.server thread serving the scratch directory",
]

_live: set[str] = set()


def configure(live_ids, tier, opts):
    global _live
    _live = set(live_ids)


class Picker:
    def __init__(self, bits):
        self.bits = list(bits) or [0]
        self.i = 0
        self.applied = 0
        self.deep = 0

    def pick(self, n: int, depth: int) -> int:
        b = self.bits[self.i % len(self.bits)] % n
        self.i += 1
        if b:
            self.applied += 1
            if depth > 0:
                self.deep += 1
        return b


def rs(s: dict, pk: Picker, depth: int) -> dict:
    """Notation-aware renderer: same IR, equivalent spellings selected by the picker (choice 0 = baseline)."""
    k = s.get("k")
    nullable = bool(s.get("nullable"))
    desc = {"description": s["desc"]} if s.get("desc") else {}
    if k == "ref":
        r = {"$ref": "#/components/schemas/" + s["name"]}
        if nullable and s.get("typed_wrapper"):
            # the common 3.0 idiom {type: object, nullable: true, allOf: [$ref]} and its mechanical 3.1 type-list rewrite
            c = pk.pick(2, depth)
            if c == 0:
                return {"type": "object", "allOf": [r], "nullable": True, **desc}
            return {"type": ["object", "null"], "allOf": [r], **desc}
        if nullable:
            c = pk.pick(3, depth)
            if c == 0:
                return {"allOf": [r], "nullable": True, **desc}
            if c == 1:
                return {"oneOf": [{"type": "null"}, {"allOf": [r]}], **desc}
            return {"oneOf": [{"type": "null"}, r], **desc}
        if desc:
            return {"allOf": [r], **desc}
        c = pk.pick(4, depth)
        return [r, {"allOf": [r]}, {"oneOf": [r]}, {"anyOf": [r]}][c]
    if k == "enum":
        base = {"type": "string" if s["base"] == "str" else "integer", "enum": list(s["values"])}
        if "default" in s and depth == 0:
            base["default"] = s["default"]   # a component's own default: a reference to it, bare or wrapped, does not take it over
        if s.get("null"):
            c = pk.pick(2, depth)
            if c == 0:
                return {**base, "enum": base["enum"] + [None]}
            return {"oneOf": [{"type": "null"}, base]}
        return base
    if k == "union":
        how = s.get("how", "anyOf")
        members = [rs(m, pk, depth + 1) for m in s["members"]]
        if nullable:
            c = pk.pick(2, depth)
            if c == 0:
                return {how: members, "nullable": True, **desc}
            return {how: members + [{"type": "null"}], **desc}
        return {how: members, **desc}
    if k == "array":
        core = {"type": "array", "items": rs(s["items"], pk, depth + 1)}
    elif k == "object":
        core = {"type": "object"}
        if s.get("props"):
            core["properties"] = {p[0]: rs(p[1], pk, depth + 1) for p in s["props"]}
            req = [p[0] for p in s["props"] if p[2]]
            if req:
                core["required"] = req
        a = s.get("addl")
        if a is True or a is False:
            core["additionalProperties"] = a
        elif isinstance(a, dict):
            core["additionalProperties"] = rs(a, pk, depth + 1)
        if s.get("allOf"):
            members = [rs(m, Picker([0]), depth + 1) for m in s["allOf"]]
            own = {kk: v for kk, v in core.items() if kk != "additionalProperties"}
            core = {"allOf": members + [own], **({"additionalProperties": core["additionalProperties"]} if "additionalProperties" in core else {})}
            if nullable and depth > 0:
                # a nullable inline composition: 3.0 keyword beside an explicit type, 3.1 type list, explicit union with null
                c = pk.pick(3, depth)
                if c == 0:
                    return {"type": "object", "nullable": True, **core, **desc}
                if c == 1:
                    return {"type": ["object", "null"], **core, **desc}
                return {"oneOf": [{"type": "object", **core, **desc}, {"type": "null"}], **desc}
            return {**core, **desc}
    elif k == "const":
        return {"const": s["value"], **desc}
    elif k == "any":
        return {**desc}
    else:
        core = docs.render_schema({"k": k}, "3.1.0")
    if nullable and "type" in core:
        c = pk.pick(3, depth)
        if c == 0:
            return {**core, "nullable": True, **desc}
        if c == 1:
            return {**core, "type": [core["type"], "null"], **desc}
        # the description belongs to the described schema: written on the member as well as on the union, which is
        # what the generator's own expansion of nullable / type lists produces
        return {"oneOf": [{**core, **desc}, {"type": "null"}], **desc}
    return {**core, **desc}


def render(ir: dict, bits) -> tuple[dict, Picker]:
    return _render_with(ir, Picker(bits))


@st.composite
def cases(draw, tier):
    prof = docs.profile(max_schemas=4, max_props=4, max_ops=2, max_depth=2, desc=True, security=False, allof=True, affix_names=True,
                        component_unions=True, inline_allof=True,
                        null_in_enum=True)
    ir = draw(docs.doc_ir(prof))
    for op in ir["ops"]:
        for p in op["params"]:
            p["level"] = "op"
    comps = docs.comp_map(ir)
    plain_objs = [n for n, sc in ir["schemas"] if sc["k"] == "object"]
    if plain_objs and draw(st.integers(0, 2)) == 0:
        # a nullable inline composition (the three notations of 'nullable' meet allOf)
        tgt = draw(st.sampled_from(plain_objs))
        inner = {"k": "object", "props": [["onlyNote", {"k": "str"}, draw(st.booleans())], ["onlyCount", {"k": "int"}, False]], "addl": None,
                 "allOf": [{"k": "ref", "name": tgt}], "nullable": True}
        if draw(st.booleans()):
            inner["desc"] = "text nullable composition"
        ir["schemas"].append(["ZzNullableComposed", {"k": "object", "props": [["inner", inner, draw(st.booleans())], ["label", {"k": "str"}, False]],
                                                     "addl": None, "allOf": []}])
        comps = docs.comp_map(ir)

    def mark(sc):
        if sc.get("k") == "ref" and sc.get("nullable") and comps.get(sc["name"], {}).get("k") == "object" and draw(st.booleans()):
            sc["typed_wrapper"] = True
        for key in ("items", "addl"):
            if isinstance(sc.get(key), dict):
                mark(sc[key])
        for m in sc.get("members", []):
            mark(m)
        for pp in sc.get("props", []):
            mark(pp[1])

    for _, sc in ir["schemas"]:
        mark(sc)
        if sc["k"] == "enum" and not sc.get("null") and draw(st.booleans()):
            sc["default"] = sc["values"][0]
    # parameters / responses shared by every operation through components (their schema objects are parsed once per use)
    refable = [n for n, sc in ir["schemas"] if sc["k"] == "enum"]
    ir["shared_params"] = []
    if draw(st.booleans()):
        for i in range(draw(st.integers(1, 2))):
            which = draw(st.integers(0, 2))
            if which == 0 and refable:
                sch = {"k": "ref", "name": draw(st.sampled_from(refable))}
            elif which == 1:
                # an inline enum that lists null: the generator rewrites such a schema object when it first meets it
                sch = {"k": "enum", "base": "str", "values": ["asc", "desc"], "null": True} if draw(st.booleans()) else \
                    {"k": "enum", "base": "int", "values": [1, 2], "null": True}
            else:
                sch = {"k": draw(st.sampled_from(["str", "int", "date"])), "nullable": draw(st.booleans())}
            ir["shared_params"].append({"name": f"zzShared{i}", "in": "query", "required": False, "schema": sch})
    objs = [n for n, sc in ir["schemas"] if sc["k"] == "object"]
    ir["shared_response"] = {"k": "ref", "name": draw(st.sampled_from(objs)), "nullable": draw(st.booleans())} if objs and draw(st.booleans()) else None
    ir["shared_level"] = draw(st.sampled_from(["components", "path_item"]))
    bits = draw(st.lists(st.integers(0, 11), min_size=4, max_size=24))
    if draw(st.integers(0, 3)) == 0:
        # text outside the Basic Multilingual Plane: json.dump writes it as an escaped surrogate pair, which a YAML loader rejects
        ir["title"] = "Verif \U0001F680 API"
    url = draw(st.integers(0, 3)) == 0
    encoding = "utf-8"
    if url and draw(st.booleans()) and ir.get("title") in (None, "Verif API"):
        encoding = "cp1252"     # path versus URL under another *output* encoding (one that can write every character of the templates)
    return {"ir": ir, "bits": bits, "yaml": draw(st.integers(0, 2)) == 0, "url": url, "encoding": encoding,
            "ctype_params": draw(st.booleans()), "cfg": {"literal_enums": draw(st.booleans())}}


def strategy(tier):
    return cases(tier)


# ------------------------------------------------------------------------------------------------ loopback server

_server = None


class _Quiet(http.server.SimpleHTTPRequestHandler):
    def log_message(self, *a):
        pass

    def guess_type(self, path):
        # files named *.charset.json / *.charset.yaml are served with a parameter after the media type, as most servers do
        p = str(path)
        if p.endswith(".charset.json"):
            return "application/json; charset=utf-8"
        if p.endswith(".charset.yaml"):
            return "application/yaml; charset=utf-8"
        return super().guess_type(path)


def server_url(path: str) -> str:
    global _server
    root = env.scratch_root()
    if _server is None or _server[2] != os.getpid() or _server[3] != root:
        handler = functools.partial(_Quiet, directory=root)
        httpd = socketserver.TCPServer(("127.0.0.1", 0), handler)
        httpd.daemon_threads = True
        t = threading.Thread(target=httpd.serve_forever, daemon=True)
        t.start()
        _server = (httpd, t, os.getpid(), root)
    port = _server[0].server_address[1]
    rel = os.path.relpath(path, root)
    return f"http://127.0.0.1:{port}/{rel}"


def _wrapper_in_toplevel_nonobject(doc) -> bool:
    """A single-reference allOf/oneOf/anyOf wrapper anywhere inside a top-level component that is itself an array or a union
    (not a plain model; such components are built while models are still unprocessed), around a model that has an inline
    class-generating descendant (object, enum, union of objects): the shape of KF-C17-01."""
    schemas = (doc.get("components") or {}).get("schemas") or {}

    def makes_class(q, depth=0) -> bool:
        if not isinstance(q, dict) or "$ref" in q or depth > 6:
            return False
        if q.get("type") == "object" or "properties" in q or "enum" in q:
            return True
        if isinstance(q.get("items"), dict) and makes_class(q["items"], depth + 1):
            return True
        return any(makes_class(m, depth + 1) for key in ("oneOf", "anyOf", "allOf") for m in (q.get(key) or []) if isinstance(m, dict))

    def inline_class_child(sch) -> bool:
        if any(makes_class(p) for p in (sch.get("properties") or {}).values()):
            return True
        if isinstance(sch.get("additionalProperties"), dict) and makes_class(sch["additionalProperties"]):
            return True
        return any(isinstance(m, dict) and inline_class_child(m) for m in sch.get("allOf") or [])

    def walk(x) -> bool:
        if isinstance(x, dict):
            for key in ("allOf", "oneOf", "anyOf"):
                v = x.get(key)
                if isinstance(v, list) and len(v) == 1 and isinstance(v[0], dict) and "$ref" in v[0] \
                        and not any(x.get(k2) for k2 in ("allOf", "oneOf", "anyOf") if k2 != key):
                    target = schemas.get(str(v[0]["$ref"]).rsplit("/", 1)[-1])
                    if isinstance(target, dict) and inline_class_child(target):
                        return True
            return any(walk(v) for v in x.values())
        if isinstance(x, list):
            return any(walk(v) for v in x)
        return False

    for sch in schemas.values():
        if isinstance(sch, dict) and (sch.get("type") == "array" or "oneOf" in sch or "anyOf" in sch) and "properties" not in sch:
            if walk(sch):
                return True
    return False


def _has_typelist_enum_null(doc) -> bool:
    found = False

    def walk(x):
        nonlocal found
        if isinstance(x, dict):
            if isinstance(x.get("type"), list) and isinstance(x.get("enum"), list) and None in x["enum"]:
                found = True
            for v in x.values():
                walk(v)
        elif isinstance(x, list):
            for v in x:
                walk(v)

    walk(doc)
    return found


def run(case, ctx):
    ir = case["ir"]
    base_doc, _ = render(ir, [0])
    alt_doc, pk = render(ir, case["bits"])
    enc = case.get("encoding") or "utf-8"
    if enc != "utf-8":
        # the output encoding is a property of what is *written*; the document is UTF-8 whatever it is (non-ASCII text as raw bytes)
        ctx.label("file_encoding:" + enc)
        for d_ in (base_doc, alt_doc):
            d_["info"]["title"] = "V\u00e9rif caf\u00e9s API"
            d_["info"]["description"] = "D\u00e9j\u00e0 vu \u2014 na\u00efve"
    a = sut.generate(source=sut.write_doc(base_doc, raw_unicode=enc != "utf-8"), cfg=case.get("cfg") or {}, pkg_name="pkg", encoding=enc)
    ctx.evals()
    try:
        if a.exc is not None or not a.accepted:
            ctx.skip("generator_rejected_or_crashed")
            return
        if a.errors:
            ctx.skip("base_has_diagnostics")
            return
        snap_a = sut.snapshot(a.out)
    finally:
        env.rm(os.path.dirname(a.out))
    suffix = None
    if case.get("url") and case.get("ctype_params"):
        suffix = ".charset.yaml" if case.get("yaml") else ".charset.json"
        ctx.label("url_content_type_with_parameter")
    src = sut.write_doc(alt_doc, as_yaml=bool(case.get("yaml")), suffix=suffix, raw_unicode=enc != "utf-8")
    if case.get("yaml"):
        # keep only documents the YAML round trip preserves under the harness' own loader
        from ruamel.yaml import YAML

        with open(src, encoding="utf-8") as f:
            if YAML(typ="safe").load(f) != alt_doc:
                ctx.skip("yaml_roundtrip_not_identity")
                return
    source = server_url(src) if case.get("url") else src
    b = sut.generate(source=source, cfg=case.get("cfg") or {}, pkg_name="pkg", encoding=enc)
    ctx.evals()
    site = {"yaml": bool(case.get("yaml")), "url": bool(case.get("url")), "rewrites": pk.applied > 0}
    try:
        if b.exc is not None:
            ctx.violation("equivalent.same_outcome", {**site, "how": "crash"}, repr(b.exc)[:200])
            return
        if b.errors:
            extra = {}
            dt_ = b.diag_text()
            sym = "duplicate_models" if "Attempted to generate duplicate models" in dt_ else \
                ("invalid_property_in_union" if "Invalid property in union" in dt_ else None)
            if sym and _wrapper_in_toplevel_nonobject(alt_doc):
                extra = {"symptom": sym, "ref_wrapper_in_toplevel_array_or_union": True}
            ctx.violation("equivalent.same_diagnostics", {**site, "level": "error" if b.has_error_level else "warning", **extra},
                          b.diag_text()[:300])
            return
        snap_b = sut.snapshot(b.out)
        if snap_a != snap_b:
            df = sut.diff_snap(snap_a, snap_b)
            which = _culprit(ir, case, snap_a, ctx)
            ctx.violation("equivalent.identical_tree", {**site, **which, "set_changed": bool(df["only_a"] or df["only_b"])},
                          json.dumps(df)[:300])
    finally:
        env.rm(os.path.dirname(b.out))
        env.rm(os.path.dirname(src))
    if pk.deep > 0 or case.get("yaml") or case.get("url"):
        ctx.nontrivial([base_doc, case["bits"], case.get("yaml"), case.get("url")])
        ctx.sample = {"rewrites_applied": pk.applied, "yaml": bool(case.get("yaml")), "url": bool(case.get("url")),
                      "baseline_first_schema": next(iter(base_doc.get("components", {}).get("schemas", {}).values()), None),
                      "rewritten_first_schema": next(iter(alt_doc.get("components", {}).get("schemas", {}).values()), None)}
    ctx.label("yaml" if case.get("yaml") else "json", "url" if case.get("url") else "path", f"rewrites:{min(pk.applied, 5)}")


def _culprit(ir, case, snap_a, ctx) -> dict:
    """Which single rewrite family reproduces the difference: re-render with one family enabled at a time."""
    fams = {}
    for fam, mask in (("ref_wrapper", "ref"), ("nullable_notation", "null"), ("enum_null", "enum")):
        doc, pk = render_family(ir, case["bits"], mask)
        if pk.applied == 0:
            continue
        r = sut.generate(doc, cfg=case.get("cfg") or {}, pkg_name="pkg")
        try:
            differs = r.exc is not None or bool(r.errors) or sut.snapshot(r.out) != snap_a
        finally:
            env.rm(os.path.dirname(r.out))
        if differs:
            fams[fam] = True
    return {"family": sorted(fams)[0] if fams else "serialisation_or_combination"}


def render_family(ir, bits, fam):
    """Render with only one rewrite family active (others forced to the baseline choice).
    rs() calls pick(n, ...) with n identifying the family: 4 = bare-ref wrapper, 3 = nullable notation, 2 = enum-null / union-null."""
    pk = Picker(bits)

    def fam_pick(n, depth):
        b = pk.bits[pk.i % len(pk.bits)] % n
        pk.i += 1
        active = (fam == "ref" and n == 4) or (fam == "null" and n == 3) or (fam == "enum" and n == 2)
        if not active:
            return 0
        if b:
            pk.applied += 1
        return b

    pk.pick = fam_pick
    return _render_with(ir, pk)


def _render_with(ir, pk):
    out = {"openapi": "3.1.0", "info": {"title": ir.get("title", "Verif API"), "version": "1.0.0"}, "paths": {}}
    comps = {n: rs(s, pk, 0) for n, s in ir["schemas"]}
    shared_p = {}
    for p in ir.get("shared_params", []):
        shared_p[p["name"]] = {"name": p["name"], "in": p["in"], "schema": rs(p["schema"], pk, 1)}
    shared_r = None
    if ir.get("shared_response"):
        shared_r = {"description": "shared", "content": {"application/json": {"schema": rs(ir["shared_response"], pk, 1)}}}
    second_methods = {}
    for op in ir["ops"]:
        o = {}
        if op.get("opid") is not None:
            o["operationId"] = op["opid"]
        if op.get("tags"):
            o["tags"] = list(op["tags"])
        ps = []
        for p in op["params"]:
            d = {"name": p["name"], "in": p["in"], "schema": rs(p["schema"], pk, 1)}
            if p.get("required"):
                d["required"] = True
            ps.append(d)
        if ps:
            o["parameters"] = ps
        if op.get("body"):
            o["requestBody"] = {"required": True, "content": {mt: {"schema": rs(s, pk, 1)} for mt, s in op["body"]["content"]}}
        resp = {}
        for status, r in op["responses"]:
            if r is None:
                resp[str(status)] = {"description": "none"}
            else:
                resp[str(status)] = {"description": "resp", "content": {r[0]: {"schema": rs(r[1], pk, 1)}}}
        if shared_r is not None and "418" not in resp:
            resp["418"] = {"$ref": "#/components/responses/ZzSharedResp"}
        o["responses"] = resp
        item = out["paths"].setdefault(op["path"], {})
        item[op["method"]] = o
        if shared_p:
            if ir.get("shared_level") == "components":
                o.setdefault("parameters", []).extend({"$ref": "#/components/parameters/" + k} for k in shared_p)
            else:
                # a path-item-level parameter shared by two operations of one path item
                item["parameters"] = [copy.deepcopy(v) for v in shared_p.values()]
                m2 = next(m for m in ("get", "put", "post", "delete", "patch", "head", "options", "trace") if m not in item)
                twin = {"operationId": (op.get("opid") or "zzop") + "Twin", "responses": {"200": {"description": "ok"}}}
                pathp = [copy.deepcopy(q) for q in o.get("parameters", []) if q.get("in") == "path"]
                if pathp:
                    twin["parameters"] = pathp
                item[m2] = twin
    out_comps = {}
    if comps:
        out_comps["schemas"] = comps
    if shared_p and ir.get("shared_level") == "components":
        out_comps["parameters"] = shared_p
    if shared_r is not None:
        out_comps["responses"] = {"ZzSharedResp": shared_r}
    if out_comps:
        out["components"] = out_comps
    return out, pk
