"""C19 - generation writes only where told, never clobbers, converges on overwrite."""
from __future__ import annotations

import json
import os
import shutil

from hypothesis import strategies as st

from .. import env, sut

ID = "C19"
BUDGET = {"quick": 256, "thorough": 4000}
RULE = ("model-based histories: a generated sequence of 2-8 (quick) / 2-15 (thorough) commands against one sandbox parent directory "
        "filled with sentinel files - generate(document i of a pool of 4-6, metadata flavour, --overwrite on/off, explicit "
        "--output-path or the title-derived default with cwd = sandbox) through the CLI, add_user_file (project or package "
        "directory, never models/ or api/), touch_sentinel; documents differ in schemas/operations/tags and carry titles, tags, "
        "schema names, operationIds, property and enum names with path separators, dot segments, absolute paths, drive letters "
        "and control characters. After every step: nothing outside the chosen output directory changed or appeared; without "
        "--overwrite an existing directory is byte-for-byte untouched, an error is reported and the exit code is 1; with "
        "--overwrite (same directory and flavour) the tree equals a fresh generation of the current document into an empty "
        "directory plus the untouched user files. An evaluation = one command. Non-trivial = >=2 generations of different "
        "documents into one location, or a traversal-shaped name. distinct = hash(history).")
ASSUMPTIONS = [
    "histories are generated as step lists by a Hypothesis composite strategy and executed against a reference model of the expected "
    "tree (equivalent to a rule-based state machine; the whole sequence is one shrinkable value)",
    "the CLI is driven in-process (typer CliRunner) with post_hooks disabled through --config",
    "user files use a user_ prefix so they never coincide with a generated file; models/ and api/ are not user space",
    "when a directory is regenerated with a different metadata flavour only containment is checked (the statement fixes 'same flavour')",
]

TRAVERSAL = ["../../evil", "/abs/evil", "..", "a/b", "a\\b", "C:\\x", "....//", "%2e%2e%2f", "x\x07y", "../sibling", "./here", "~root",
             "con", "..\\..\\win", "/", "trailing/", "nul\x01char"]
PLAIN = ["Pet Shop", "Inventory", "billing-api", "Verif API"]
WORDS = ["alpha", "bravo", "charlie", "delta", "echo", "foxtrot"]


@st.composite
def document(draw, i):
    hostile = draw(st.booleans())
    name = lambda: draw(st.sampled_from(TRAVERSAL)) if hostile and draw(st.booleans()) else draw(st.sampled_from(WORDS))  # noqa: E731
    # boundary documents matter for what a regeneration leaves behind: no schemas at all, no operations at all, models without
    # enums, enums without models
    n_s = draw(st.sampled_from([0, 0, 1, 1, 2, 3]))
    n_o = draw(st.sampled_from([0, 1, 1, 2, 3]))
    shape = draw(st.sampled_from(["models_with_enums", "models_with_enums", "models_only", "enums_only"]))
    schemas = {}
    for k in range(n_s):
        nm = draw(st.sampled_from(WORDS)).capitalize() + str(draw(st.integers(0, 2)))
        if shape == "enums_only":
            schemas[nm] = {"type": "string", "enum": [name(), "plainvalue"]}
            continue
        props = {name(): {"type": "string"}}
        if shape == "models_with_enums":
            props["kind"] = {"type": "string", "enum": [name(), "plainvalue"]}
        sch = {"type": "object", "properties": props}
        if hostile and draw(st.booleans()):
            sch["title"] = draw(st.sampled_from(TRAVERSAL))
        schemas[nm] = sch
    paths = {}
    for k in range(n_o):
        o = {"operationId": name() + str(k), "responses": {"200": {"description": "ok"}}}
        if draw(st.booleans()):
            o["tags"] = [name()]
        paths[f"/p{i}_{k}"] = {"get": o}
    return {"openapi": "3.0.3", "info": {"title": draw(st.sampled_from(TRAVERSAL if hostile else PLAIN)), "version": "1"},
            "paths": paths, "components": {"schemas": schemas}}


@st.composite
def histories(draw, tier):
    n_docs = draw(st.integers(2, 4))
    docs_ = [draw(document(i)) for i in range(n_docs)]
    # most histories keep one title so that the default location is shared between documents
    if draw(st.integers(0, 2)) > 0:
        t = docs_[0]["info"]["title"]
        for d in docs_:
            d["info"]["title"] = t
    max_steps = 8 if tier == "quick" else 15
    n = draw(st.integers(2, max_steps))
    steps = []
    main_meta = draw(st.sampled_from(["none", "poetry", "setup", "pdm"]))
    for _ in range(n):
        r = draw(st.integers(0, 9))
        if r <= 6 and draw(st.integers(0, 7)) == 0:
            # the addressed directory exists already although nothing was generated into it: empty, or holding only a dot file / a
            # sub-directory with one
            steps.append({"op": "mkdir", "doc": draw(st.integers(0, n_docs - 1)), "meta": main_meta, "target": draw(st.sampled_from(["output_path", "output_path", "default"])),
                          "content": draw(st.sampled_from(["empty", "empty", "dotfile", "subdir_with_file"]))})
        elif r <= 6:
            steps.append({"op": "generate", "doc": draw(st.integers(0, n_docs - 1)),
                          # options that change what the fixed support files contain may differ from run to run
                          "options": {"docstrings_on_attributes": draw(st.booleans()), "literal_enums": draw(st.booleans())},
                          "hooks": draw(st.integers(0, 5)) == 0,
                          "meta": main_meta if draw(st.integers(0, 4)) > 0 else draw(st.sampled_from(["none", "poetry", "setup", "pdm"])),
                          "overwrite": draw(st.booleans()), "target": draw(st.sampled_from(["output_path", "output_path", "default"])),
                          # a module name given through the class_overrides option is a file name too
                          "override_module": draw(st.sampled_from([None, None, None, None, "../../escaped_mod", "../pkg_level_mod", "/abs/mod",
                                                                   "sub/dir/mod", "plain_mod", "..", "a.b"]))})
        elif r <= 8:
            steps.append({"op": "user_file", "where": draw(st.sampled_from(["project", "package"])),
                          "name": draw(st.sampled_from(["user_notes.md", "user_extras.py", "user_contrib/user_x.txt", "setup.py", "setup.py", "setup.py", "setup.py",
                                                        "pyproject.toml", "Makefile"])),
                          "target": draw(st.sampled_from(["output_path", "default"]))})
        else:
            steps.append({"op": "sentinel", "name": draw(st.sampled_from(["sentinel_new.txt", "keep/sentinel2.bin"]))})
    return {"docs": docs_, "steps": steps}


def strategy(tier):
    return histories(tier)


def _fixed_doc(i, n_schemas):
    schemas = {f"Item{i}{k}": {"type": "object", "properties": {"name": {"type": "string"}, "kind": {"type": "string", "enum": ["a", "b"]}}}
               for k in range(n_schemas)}
    return {"openapi": "3.0.3", "info": {"title": "Fixed History", "version": "1"},
            "paths": {f"/p{i}": {"get": {"operationId": f"op{i}", "tags": [f"tag{i}"], "responses": {"200": {"description": "ok"}}}}},
            "components": {"schemas": schemas}}


def sweep(tier):
    """Complete small histories, every run: generate, drop user files of every name into the project (and package) directory,
    regenerate another document with overwrite - for every flavour and both ways of addressing the directory."""
    out = []
    names = ["user_notes.md", "user_extras.py", "user_contrib/user_x.txt", "setup.py", "pyproject.toml", "Makefile"]
    for meta in ("none", "poetry", "setup", "pdm"):
        for target in ("output_path", "default"):
            for second_doc in (1, 2):   # 2 = a document without schemas
                steps = [{"op": "generate", "doc": 0, "meta": meta, "overwrite": False, "target": target, "override_module": None}]
                steps += [{"op": "user_file", "where": "project", "name": n, "target": target} for n in names]
                steps += [{"op": "user_file", "where": "package", "name": "user_extras.py", "target": target}]
                steps += [{"op": "generate", "doc": second_doc, "meta": meta, "overwrite": True, "target": target, "override_module": None},
                          {"op": "generate", "doc": 0, "meta": meta, "overwrite": True, "target": target, "override_module": "../pkg_level_mod"},
                          {"op": "generate", "doc": second_doc, "meta": meta, "overwrite": True, "target": target, "override_module": None}]
                out.append({"docs": [_fixed_doc(0, 2), _fixed_doc(1, 1), _fixed_doc(2, 0)], "steps": steps})
    return out


def _snap_outside(parent, exclude):
    snap = sut.snapshot(parent)
    ex = [os.path.relpath(e, parent) for e in exclude if e]
    return {k: v for k, v in snap.items() if not any(k == e or k.rstrip("/") == e or k.startswith(e + os.sep) or k.startswith(e + "/") for e in ex)}


def _project_name(title: str):
    from openapi_python_client import utils

    return f"{utils.kebab_case(title).lower()}-client"


def run(case, ctx):
    root = env.fresh_dir("c19")
    outer = os.path.join(root, "outer")          # everything here must never change
    sandbox = os.path.join(outer, "sandbox")     # cwd for default-location generations; holds sentinels
    os.makedirs(sandbox)
    for rel, data in (("sentinel_a.txt", b"A"), ("keep/sentinel_b.bin", b"\x00\x01B"), ("../outer_sentinel.txt", b"outer")):
        p = os.path.normpath(os.path.join(sandbox, rel))
        os.makedirs(os.path.dirname(p), exist_ok=True)
        with open(p, "wb") as f:
            f.write(data)
    srcdir = os.path.join(root, "src")
    os.makedirs(srcdir)
    doc_paths = []
    for i, d in enumerate(case["docs"]):
        p = os.path.join(srcdir, f"doc{i}.json")
        with open(p, "w", encoding="utf-8") as f:
            json.dump(d, f)
        doc_paths.append(p)
    cfgp = os.path.join(srcdir, "cfg.json")
    with open(cfgp, "w") as f:
        f.write('{"post_hooks": []}')
    # model: directory -> {"meta":…, "doc":…, "user": {rel: bytes}}
    model: dict[str, dict] = {}
    pre_user: dict[str, dict] = {}
    gens_per_dir: dict[str, set] = {}
    traversal = any(any(t in json.dumps(d) for t in ("..", "/abs", "C:\\\\", "%2e")) for d in case["docs"])
    try:
        for si, step in enumerate(case["steps"]):
            ctx.evals()
            if step["op"] == "sentinel":
                p = os.path.join(sandbox, step["name"])
                os.makedirs(os.path.dirname(p), exist_ok=True)
                with open(p, "wb") as f:
                    f.write(b"S" + str(si).encode())
                continue
            doc = case["docs"][step.get("doc", 0) % len(case["docs"])] if step["op"] in ("generate", "mkdir") else None
            # which directory does this step address?
            if step["target"] == "output_path":
                target = os.path.join(sandbox, "explicit_out")
            else:
                title = (doc or case["docs"][0])["info"]["title"]
                meta_for_name = step.get("meta") or (model.get("__last_default_meta__") or "poetry")
                try:
                    pn = _project_name(title)
                except Exception:
                    continue
                if step["op"] in ("generate", "mkdir"):
                    name = pn.replace("-", "_") if step["meta"] == "none" else pn
                    target = os.path.join(sandbox, name)
                else:
                    cands = [d for d in model if d.startswith(sandbox) and d != os.path.join(sandbox, "explicit_out")]
                    if not cands:
                        continue
                    target = sorted(cands)[0]
            if step["op"] == "mkdir":
                if not os.path.realpath(target).startswith(os.path.realpath(sandbox) + os.sep) or os.path.exists(target):
                    continue
                os.makedirs(target)
                rel_ = {"dotfile": ".keep", "subdir_with_file": os.path.join("cache", ".gitkeep")}.get(step["content"])
                if rel_:
                    os.makedirs(os.path.dirname(os.path.join(target, rel_)), exist_ok=True)
                    with open(os.path.join(target, rel_), "wb") as f:
                        f.write(b"kept")
                    pre_user.setdefault(target, {})[rel_] = b"kept"     # the user's, from before the first generation
                ctx.label("preexisting_directory:" + step["content"])
                continue
            if step["op"] == "user_file":
                st_ = model.get(target)
                if not st_ or not os.path.isdir(target):
                    continue
                base = target
                if step["where"] == "package" and st_["meta"] != "none":
                    subs = [d for d in sorted(os.listdir(target)) if os.path.isfile(os.path.join(target, d, "__init__.py"))]
                    if subs:
                        base = os.path.join(target, subs[0])
                p = os.path.join(base, step["name"])
                os.makedirs(os.path.dirname(p), exist_ok=True)
                data = f"user data {si}".encode() if not step["name"].endswith(".py") else f"import os,sys\nx = {{  'a':{si} }}\n".encode()
                with open(p, "wb") as f:
                    f.write(data)
                st_["user"][os.path.relpath(p, target)] = data
                continue
            # ---- generate
            before_out = _snap_outside(outer, [target])
            before_target = sut.snapshot(target) if os.path.isdir(target) else None
            step_cfg = cfgp
            cfg_obj = {**({} if step.get("hooks") else {"post_hooks": []}), **(step.get("options") or {})}
            if step.get("hooks"):
                ctx.label("default_post_hooks")
            if step.get("override_module"):
                names_ = list((doc.get("components") or {}).get("schemas") or {})
                if names_:
                    cfg_obj["class_overrides"] = {names_[0]: {"module_name": step["override_module"]}}
                    ctx.label("module_name_override")
            if cfg_obj != {"post_hooks": []}:
                step_cfg = os.path.join(srcdir, f"cfg_step{si}.json")
                with open(step_cfg, "w") as f:
                    json.dump(cfg_obj, f)
            args = ["generate", "--path", doc_paths[step["doc"] % len(doc_paths)], "--meta", step["meta"], "--config", step_cfg]
            if step["overwrite"]:
                args.append("--overwrite")
            if step["target"] == "output_path":
                args += ["--output-path", target]
            code, so, se, exc = sut.cli(args, cwd=sandbox)
            site = {"meta": step["meta"], "overwrite": bool(step["overwrite"]), "target": step["target"], "existing": before_target is not None,
                    **({"default_post_hooks": True} if step.get("hooks") else {}),
                    **({"never_generated_into": True} if before_target is not None and target not in model else {})}
            if exc is not None:
                ctx.label("cli_crash:" + type(exc).__name__)   # C06's verdict; containment is still checked below
            after_out = _snap_outside(outer, [target])
            if after_out != before_out:
                df = sut.diff_snap(before_out, after_out)
                ctx.violation("writes.only_inside_output_directory", {**site, "traversal_names": traversal}, json.dumps(df)[:400])
            text = (se or "") + (so or "")
            if before_target is not None and not step["overwrite"]:
                now = sut.snapshot(target)
                if now != before_target:
                    ctx.violation("no_overwrite.untouched", site, json.dumps(sut.diff_snap(before_target, now))[:300])
                if code != 1:
                    ctx.violation("no_overwrite.exit_code", {**site, "code": code}, text[-200:])
                if "rror" not in text:
                    ctx.violation("no_overwrite.error_reported", site, text[-200:])
                continue
            if exc is not None or code not in (0, 1):
                continue
            if not os.path.isdir(target):
                # whole document rejected: nothing written (C06); not this property's subject
                ctx.label("document_rejected")
                continue
            prev = model.get(target)
            try:
                pname = _project_name(doc["info"]["title"])
            except Exception:
                pname = "?"
            same_flavour = prev is None or (prev["meta"] == step["meta"] and prev["pname"] == pname)
            if prev is None:
                model[target] = {"meta": step["meta"], "doc": step["doc"], "user": dict(pre_user.get(target) or {}), "pname": pname}
            else:
                prev["doc"] = step["doc"]
                if not same_flavour:
                    # another flavour or another (title-derived) project/package name: outside "same names and metadata flavour"
                    prev["meta"] = step["meta"]
                    prev["pname"] = pname
                    prev["mixed"] = True
            gens_per_dir.setdefault(target, set()).add(step["doc"] % len(doc_paths))
            st_ = model[target]
            # ---- convergence: equals a fresh generation of the current document (+ user files)
            if st_.get("mixed"):
                ctx.label("mixed_flavours_convergence_skipped")
                continue
            if step.get("hooks") and any(os.path.basename(r_) in ("pyproject.toml", "ruff.toml", ".ruff.toml", "setup.cfg") for r_ in st_["user"]):
                # the default hooks run ruff, which reads the nearest configuration file: a user's own one changes what the hooks do,
                # which is not the generator's doing
                ctx.label("hooks_with_user_tool_configuration_convergence_skipped")
                continue
            fresh_parent = env.fresh_dir("c19fresh")
            fresh_sandbox = os.path.join(fresh_parent, "sandbox")
            os.makedirs(fresh_sandbox)
            fargs = ["generate", "--path", doc_paths[step["doc"] % len(doc_paths)], "--meta", step["meta"], "--config", step_cfg]
            ftarget = os.path.join(fresh_sandbox, os.path.basename(target))
            if step["target"] == "output_path":
                fargs += ["--output-path", ftarget]
            sut.cli(fargs, cwd=fresh_sandbox)
            ctx.evals()
            want = sut.snapshot(ftarget)
            got = sut.snapshot(target)
            for rel in [r for r in st_["user"] if r in want]:
                # a user file named like a file this flavour generates is the generator's from now on
                del st_["user"][rel]
            for rel, data in list(st_["user"].items()):
                if got.get(rel) != data:
                    ctx.violation("overwrite.user_files_untouched", {**site, "where": "package" if os.sep in rel and not rel.startswith("user_contrib") else "project"},
                                  f"{rel}: {got.get(rel)!r}")
                    # reported once, at the step that did it: later steps are judged against what is there now
                    if got.get(rel) is None:
                        del st_["user"][rel]
                        continue
                    st_["user"][rel] = got[rel]
                got.pop(rel, None)
                d = os.path.dirname(rel)
                while d:
                    if (d + "/") in got and (d + "/") not in want:
                        got.pop(d + "/", None)
                    d = os.path.dirname(d)
            if got != want:
                df = sut.diff_snap(want, got)
                stale = [k for k in df["only_b"] if not k.endswith("/")]
                ctx.violation("overwrite.converges_to_fresh_generation",
                              {**site, "stale_files": bool(stale), "missing_files": bool(df["only_a"]), "differing": bool(df["differ"]),
                               "stale_kind": _kind(stale[0]) if stale else "none"}, json.dumps(df)[:400])
            shutil.rmtree(fresh_parent, ignore_errors=True)
        multi = any(len(v) >= 2 for v in gens_per_dir.values())
        if multi or traversal:
            ctx.nontrivial(case)
            ctx.sample = {"steps": case["steps"], "titles": [d["info"]["title"] for d in case["docs"]]}
        if multi:
            ctx.label("regenerated_with_other_document")
        if traversal:
            ctx.label("traversal_shaped_names")
    finally:
        shutil.rmtree(root, ignore_errors=True)


def _kind(rel: str) -> str:
    parts = rel.replace("\\", "/").split("/")
    if "models" in parts:
        return "model"
    if "api" in parts:
        return "endpoint"
    return "other"
