"""C20 - using a component by reference is equivalent to writing it inline."""
from __future__ import annotations

import copy
import json
import os

from hypothesis import strategies as st

from .. import behave, env, locate, sut
from ..gen import docs, instances

ID = "C20"
BUDGET = {"quick": 480, "thorough": 8000}
RULE = ("clean generated documents x (a) any subset of operation/path-item parameters, request bodies (directly or through a "
        "chain of 1-3 body references) and responses moved to components.parameters / requestBodies / responses and used by "
        "$ref (component keys of varied spelling, incl. lower-case initials): endpoint modules and diagnostics must be "
        "byte-identical to the inline rendering; (b) any subset of $refs to non-recursive object/enum schemas replaced by inline "
        "copies: the same instances must round-trip identically through the containing models, and in the by-reference document "
        "every reference to one schema must yield the same class object; (c) malformed reference strings (dangling, remote file, "
        "remote URL, wrong section, empty fragment, percent-escaped, self, mutual) at parameter / body / response positions: the "
        "using operation must be diagnosed and every other endpoint module stay byte-identical. Non-trivial = >=1 position differs "
        "between the renderings. distinct = hash(IR, choice bits).")
ASSUMPTIONS = [
    "inline object schemas legitimately get position-derived class names, so (b) is behavioural, not byte-level",
    "recursive components are never inlined",
    "remote request-body references are generated only while the finding covering them is stale",
]

_live: set[str] = set()


def configure(live_ids, tier, opts):
    global _live
    _live = set(live_ids)


KEY_WORDS = ["notFound", "errorResp", "okBody", "createReq", "pageParam", "sortOrder", "Common", "trace-id", "req.body", "resp_1",
             "mixedCase", "UPPER", "cursor", "tenant", "meta", "payload"]


@st.composite
def cases(draw, tier):
    kind = draw(st.sampled_from(["components", "components", "schemas", "schemas", "malformed", "malformed_schema"]))
    if kind == "malformed_schema":
        # a dangling / remote / bad-union-member reference in a *schema* position: judged by C08's containment oracle
        from . import c08

        base = draw(c08.cases(tier))
        base["ins"] = [x for x in base["ins"] if x.get("fault") in ("dangling_ref", "remote_ref", "union_with_bad_member")]
        if not base["ins"]:
            objs = [n for n, sc in base["ir"]["schemas"] if sc["k"] == "object"]
            if objs:
                base["ins"] = [{"kind": "prop", "host": draw(st.sampled_from(objs)), "n": 0, "required": draw(st.booleans()),
                                "fault": draw(st.sampled_from(["dangling_ref", "remote_ref", "union_with_bad_member"]))}]
            else:
                base["ins"] = [{"kind": "new_component", "fault": "dangling_ref", "n": 0, "wrap": "in_object", "position": "end"}]
        return {"kind": "malformed_schema", "c08": base}
    prof = docs.profile(max_schemas=4, max_props=3, max_ops=3, max_depth=1, security=False,
                        multi_body_multipart=False, multi_body_array=False,
                        **({"affix_names": 2, "allof_one_in": 2} if kind == "schemas" else {}))
    ir = draw(docs.doc_ir(prof, min_schemas=2, min_ops=2 if kind == "malformed" else 1))
    bits = draw(st.lists(st.integers(0, 7), min_size=6, max_size=20))
    keys = draw(st.lists(st.sampled_from(KEY_WORDS), min_size=12, max_size=12, unique=True))
    case = {"kind": kind, "ir": ir, "bits": bits, "keys": keys, "cfg": {"literal_enums": draw(st.booleans())}}
    if kind == "components" and draw(st.integers(0, 5)) == 0:
        case["content_param"] = True     # a parameter described with 'content' instead of 'schema' (valid OpenAPI), inline and by reference
    if kind == "schemas":
        for _n, sc in ir["schemas"]:
            # a component enum with a default of its own: the inline copy carries it to the property, so must the reference
            if sc["k"] == "enum" and not sc.get("null") and draw(st.integers(0, 2)) == 0:
                sc["default"] = sc["values"][0]
        flat = [n for n, sc in ir["schemas"] if sc["k"] == "object" and not sc.get("allOf")]
        if flat and draw(st.integers(0, 2)) == 0:
            # a top-level array component whose inline item composes a component (item objects of such arrays are built at another
            # time than model properties), declared before or after the component it composes
            tgt = draw(st.sampled_from(flat))
            rows = ["ZzRows", {"k": "array", "items": {"k": "object", "props": [["rowNote", {"k": "str"}, draw(st.booleans())]], "addl": None,
                                                       "allOf": [{"k": "ref", "name": tgt}]}}]
            if draw(st.booleans()):
                ir["schemas"].insert(0, rows)
            else:
                ir["schemas"].append(rows)
            if ir["ops"]:
                draw(st.sampled_from(ir["ops"]))["responses"].append([207, ["application/json", {"k": "ref", "name": "ZzRows"}]])
        if draw(st.booleans()):
            # forward references: every allOf child is declared before its parent
            order = [n for n, _ in ir["schemas"]]
            cm = docs.comp_map(ir)
            for n in list(order):
                for m in cm[n].get("allOf") or []:
                    if m.get("k") == "ref" and m["name"] in order and order.index(m["name"]) < order.index(n):
                        order.remove(n)
                        order.insert(order.index(m["name"]), n)
            ir["schemas"] = [[n, cm[n]] for n in order]
        comps = docs.comp_map(ir)
        insts = []
        for name, s in ir["schemas"]:
            if s["k"] != "object":
                continue
            for i in range(4):
                try:
                    insts.append([name, draw(instances.instance(s, comps, 0, ["none", "all", "random", "random"][i]))])
                except instances.Unsatisfiable:
                    break
        case["insts"] = insts
    if kind == "malformed":
        case["bad"] = {"op": draw(st.integers(0, len(ir["ops"]) - 1)), "pos": draw(st.sampled_from(["param", "body", "response"])),
                       "ref": draw(st.sampled_from(["dangling", "remote_file", "remote_url", "wrong_section", "empty_fragment",
                                                    "percent", "self", "mutual", "schema_section"]))}
    return case


def strategy(tier):
    return cases(tier)


class Bits:
    def __init__(self, bits):
        self.bits = list(bits) or [0]
        self.i = 0
        self.used = 0

    def take(self, n=2):
        b = self.bits[self.i % len(self.bits)] % n
        self.i += 1
        if b:
            self.used += 1
        return b


def by_reference(doc: dict, ir: dict, bits, keys) -> tuple[dict, int]:
    """Move a drawn subset of parameters / bodies / responses into components and use them by $ref."""
    d = copy.deepcopy(doc)
    bt = Bits(bits)
    comps = d.setdefault("components", {})
    ki = iter(keys + [f"Spare{i}" for i in range(40)])
    for path, item in d["paths"].items():
        holders = [item] + [item[m] for m in docs.METHODS if m in item]
        for h in holders:
            ps = h.get("parameters")
            if ps:
                for i, p in enumerate(ps):
                    if "$ref" not in p and bt.take():
                        key = next(ki)
                        comps.setdefault("parameters", {})[key] = p
                        ps[i] = {"$ref": "#/components/parameters/" + key}
        for m in docs.METHODS:
            op = item.get(m)
            if not op:
                continue
            if "requestBody" in op and bt.take():
                chain = 1 + bt.take(3)
                key = next(ki)
                rb = comps.setdefault("requestBodies", {})
                body = op["requestBody"]
                names = [key] + [next(ki) for _ in range(chain - 1)]
                for a, b in zip(names, names[1:]):
                    rb[a] = {"$ref": "#/components/requestBodies/" + b}
                rb[names[-1]] = body
                op["requestBody"] = {"$ref": "#/components/requestBodies/" + names[0]}
            for status, r in list(op.get("responses", {}).items()):
                if "$ref" not in r and bt.take():
                    key = next(ki)
                    comps.setdefault("responses", {})[key] = r
                    op["responses"][status] = {"$ref": "#/components/responses/" + key}
    return d, bt.used


def _inline(s, comps, bt, recursive, depth=0):
    """Replace a drawn subset of refs (to non-recursive components) by inline copies."""
    k = s.get("k")
    if k == "ref" and not s.get("nullable") and s["name"] in comps and s["name"] not in recursive and depth < 3:
        if bt.take():
            cp = copy.deepcopy(comps[s["name"]])
            for key in ("desc",):
                if key in s:
                    cp[key] = s[key]
            cp = _inline(cp, comps, bt, recursive, depth + 1)
            s.clear()
            s.update(cp)
        return s
    for key in ("items", "addl"):
        if isinstance(s.get(key), dict):
            _inline(s[key], comps, bt, recursive, depth)
    for m in s.get("members", []):
        _inline(m, comps, bt, recursive, depth)
    for p in s.get("props", []):
        _inline(p[1], comps, bt, recursive, depth)
    # an allOf member written by reference versus the same (flat) parent written out as an inline member
    for m in s.get("allOf", []):
        if m.get("k") == "ref" and m["name"] in comps and m["name"] not in recursive and not comps[m["name"]].get("allOf") \
                and comps[m["name"]].get("k") == "object":
            bt.used += 1
            cp = copy.deepcopy(comps[m["name"]])
            for p in cp.get("props", []):
                _inline(p[1], comps, bt, recursive, depth + 1)
            m.clear()
            m.update(cp)
    return s


def run(case, ctx):
    if case["kind"] == "malformed_schema":
        from . import c08

        c08.configure({("KF-C08-01" if "KF-C20-02" in _live else "")}, ctx.tier, {})
        c08.run(case["c08"], ctx)
        for v in ctx.violations:
            v["site"] = {**v["site"], "pos": "schema"}
        ctx.label("malformed_schema")
        return
    {"components": _run_components, "schemas": _run_schemas, "malformed": _run_malformed}[case["kind"]](case, ctx)
    ctx.label(case["kind"])


def _api_files(snap):
    return {k: v for k, v in snap.items() if k.replace("\\", "/").startswith("api/")}


def _run_components(case, ctx):
    ir = case["ir"]
    doc = docs.render(ir)
    zz = None
    if case.get("content_param") and doc.get("paths"):
        item0 = next(iter(doc["paths"].values()))
        op0 = next((item0[m] for m in docs.METHODS if m in item0), None)
        if op0 is not None:
            zz = {"name": "zzFilter", "in": "query", "content": {"application/json": {"schema": {"type": "object", "properties": {"a": {"type": "string"}}}}}}
            op0.setdefault("parameters", []).append(zz)
            ctx.label("content_style_parameter")
    a = sut.generate(doc, cfg=case.get("cfg") or {}, pkg_name="pkg")
    ctx.evals()
    try:
        if a.exc is not None or not a.accepted or a.errors:
            ctx.skip("base_not_clean")
            return
        sa = sut.snapshot(a.out)
    finally:
        env.rm(os.path.dirname(a.out))
    doc2, used = by_reference(doc, ir, case["bits"], case["keys"])
    if zz is not None:
        for item in doc2["paths"].values():
            for h in [item] + [item[m] for m in docs.METHODS if m in item]:
                for i, p_ in enumerate(h.get("parameters") or []):
                    if isinstance(p_, dict) and p_.get("name") == "zzFilter":
                        doc2.setdefault("components", {}).setdefault("parameters", {})["ZzFilterParam"] = p_
                        h["parameters"][i] = {"$ref": "#/components/parameters/ZzFilterParam"}
                        used += 1
    if not used:
        ctx.skip("nothing_moved")
        return
    b = sut.generate(doc2, cfg=case.get("cfg") or {}, pkg_name="pkg")
    ctx.evals()
    moved = {sec: bool(doc2.get("components", {}).get(sec)) for sec in ("parameters", "requestBodies", "responses")}
    site = {"moved": sorted(k for k, v in moved.items() if v)[:1] if sum(moved.values()) == 1 else ["several"]}
    site = {"moved": site["moved"][0], **({"content_style_parameter": True} if zz is not None else {})}
    try:
        if b.exc is not None:
            ctx.violation("by_reference.same_outcome", {**site, "how": "crash"}, repr(b.exc)[:200])
            return
        if b.errors:
            ctx.violation("by_reference.no_new_diagnostics", site, b.diag_text()[:300])
            return
        sb = sut.snapshot(b.out)
        fa, fb = _api_files(sa), _api_files(sb)
        if fa != fb:
            df = sut.diff_snap(fa, fb)
            ctx.violation("by_reference.identical_endpoint_modules", {**site, "set_changed": bool(df["only_a"] or df["only_b"])}, json.dumps(df)[:300])
        elif sa != sb:
            df = sut.diff_snap(sa, sb)
            ctx.violation("by_reference.identical_tree", site, json.dumps(df)[:300])
    finally:
        env.rm(os.path.dirname(b.out))
    ctx.nontrivial([doc, case["bits"], case["keys"]])
    ctx.sample = {"kind": "components", "moved": {k: list((doc2.get("components", {}).get(k) or {}).keys()) for k in moved}}


def _recursive(ir):
    cmap = docs.comp_map(ir)
    return {n for n in cmap if any(docs.reaches(cmap, r, n) for r in docs.refs_of(cmap[n]))}


def _run_schemas(case, ctx):
    ir = case["ir"]
    comps = docs.comp_map(ir)
    ir2 = copy.deepcopy(ir)
    bt = Bits(case["bits"])
    rec = _recursive(ir)
    for n, s in ir2["schemas"]:
        _inline(s, comps, bt, rec)
    a = sut.generate(docs.render(ir), cfg=case.get("cfg") or {}, pkg_name="pkg")
    ctx.evals()
    b = sut.generate(docs.render(ir2), cfg=case.get("cfg") or {}, pkg_name="pkg2")
    ctx.evals()
    try:
        for r in (a, b):
            if r.exc is not None or not r.accepted:
                ctx.skip("generator_rejected_or_crashed")
                return
        if a.errors and b.errors:
            ctx.skip("base_not_clean")
            return
        if a.errors:
            # the inline spelling generates cleanly, the by-reference spelling of the same document does not
            ctx.violation("by_reference.no_new_diagnostics", {"pos": "schema"}, a.diag_text()[:300])
            return
        if b.errors:
            ctx.violation("inline.no_new_diagnostics", {"pos": "schema"}, b.diag_text()[:300])
            return
        try:
            pa, pb = sut.Loaded(a.package_dir), sut.Loaded(b.package_dir)
        except BaseException as e:  # noqa: BLE001
            if behave._is_ctl(e):
                raise
            ctx.violation("package.imports", {"exc": type(e).__name__}, repr(e)[:300])   # the documents are in the domain: a package that cannot be imported decides the property negatively
            return
        with pa, pb:
            ma, mb = pa.models, pb.models
            for name, value in case.get("insts", []):
                s = comps.get(name)
                if s is None or instances.self_check_valid(value, s, comps) is False:
                    continue
                ca, cb = getattr(ma, name, None), getattr(mb, name, None)
                if ca is None or cb is None:
                    ctx.label("class_missing")
                    continue
                ctx.evals()
                ra, rb = behave._attempt(ca, value), behave._attempt(cb, value)
                oa = ("raises", type(ra[1]).__name__) if ra[0] else ("ok", ra[1][1])
                ob = ("raises", type(rb[1]).__name__) if rb[0] else ("ok", rb[1][1])
                same = oa[0] == ob[0] and (oa[1] == ob[1] if oa[0] == "raises" else instances.json_eq(oa[1], ob[1]))
                if not same:
                    props, _ = instances.flatten_object(s, comps)
                    where = behave.locate(oa[1], ob[1], s, comps, True, True) if oa[0] == ob[0] == "ok" else {"where": "exception"}
                    ctx.violation("inline.same_wire_behaviour", {"pos": "schema", **where}, f"{name}: by-ref {oa!r} vs inline {ob!r}"[:400])
                # class identity in the by-reference package
                if ra[0] is None:
                    _identity(ctx, ra[1][0], s, comps, ma)
            # what omitting an argument encodes: the constructor defaults of one class under both spellings
            import enum as _enum
            import inspect as _inspect

            def _wire(v):
                if type(v).__name__ == "Unset":
                    return "UNSET"
                return v.value if isinstance(v, _enum.Enum) else v

            for name, s in ir["schemas"]:
                if s["k"] != "object":
                    continue
                ca, cb = getattr(ma, name, None), getattr(mb, name, None)
                if ca is None or cb is None:
                    continue
                da = {k_: _wire(p_.default) for k_, p_ in _inspect.signature(ca).parameters.items() if p_.default is not _inspect.Parameter.empty}
                db = {k_: _wire(p_.default) for k_, p_ in _inspect.signature(cb).parameters.items() if p_.default is not _inspect.Parameter.empty}
                ctx.evals()
                for k_ in sorted(set(da) & set(db)):
                    if not instances.json_eq(da[k_], db[k_]) if not (isinstance(da[k_], str) and isinstance(db[k_], str)) else da[k_] != db[k_]:
                        via_default = any(p_[1].get("k") == "ref" and comps.get(p_[1]["name"], {}).get("default") is not None
                                          for p_ in instances.flatten_object(s, comps)[0])
                        ctx.violation("inline.same_defaults", {"pos": "schema", **({"component_default_through_reference": True} if via_default else {})},
                                      f"{name}.{k_}: by-reference default {da[k_]!r}, inline default {db[k_]!r}"[:300])
        if bt.used:
            ctx.nontrivial([docs.render(ir), case["bits"]])
            ctx.sample = {"kind": "schemas", "inlined_positions": bt.used, "components": [n for n, _ in ir["schemas"]]}
    finally:
        env.rm(os.path.dirname(a.out))
        env.rm(os.path.dirname(b.out))


def _identity(ctx, obj, s, comps, models):
    props, _ = instances.flatten_object(s, comps)
    for pname, ps, _req in props:
        if ps.get("k") != "ref" or ps.get("nullable"):
            continue
        target = comps.get(ps["name"])
        if not target or target.get("k") != "object":
            continue
        cls = getattr(models, ps["name"], None)
        for attr, val in list(getattr(obj, "__dict__", {}).items()) if hasattr(obj, "__dict__") else []:
            pass
        try:
            import attrs

            for f in attrs.fields(type(obj)):
                v = getattr(obj, f.name)
                if hasattr(v, "to_dict") and type(v).__name__ == ps["name"] and cls is not None and type(v) is not cls:
                    ctx.violation("reference.single_class", {"pos": "schema"}, f"{type(v)!r} is not {cls!r}")
        except Exception:
            return


BAD_REFS = {
    "dangling": "#/components/{sec}/ZzNope", "remote_file": "other.yaml#/components/{sec}/{good}",
    "remote_url": "https://example.invalid/api.json#/components/{sec}/{good}", "wrong_section": "#/components/{other}/{good}",
    "empty_fragment": "#", "percent": "#/components/{sec}/%5A%7ANope", "self": "#/components/{sec}/ZzSelf",
    "mutual": "#/components/{sec}/ZzMutualA", "schema_section": "#/components/schemas/{schema}",
}


def _run_malformed(case, ctx):
    ir = case["ir"]
    doc = docs.render(ir)
    a = sut.generate(doc, cfg=case.get("cfg") or {}, pkg_name="pkg")
    ctx.evals()
    try:
        if a.exc is not None or not a.accepted or a.errors:
            ctx.skip("base_not_clean")
            return
        sa = sut.snapshot(a.out)
        mods = {}
        for i, op in enumerate(ir["ops"]):
            er = locate.find_endpoint(a, op)
            if er:
                mods[i] = er.module.replace(".", "/") + ".py"
    finally:
        env.rm(os.path.dirname(a.out))
    bad = case["bad"]
    op = ir["ops"][bad["op"]]
    d = copy.deepcopy(doc)
    o = d["paths"][op["path"]][op["method"]]
    sec = {"param": "parameters", "body": "requestBodies", "response": "responses"}[bad["pos"]]
    other = {"parameters": "responses", "requestBodies": "parameters", "responses": "requestBodies"}[sec]
    comps = d.setdefault("components", {})
    good_obj = {"parameters": {"name": "zzGood", "in": "query", "schema": {"type": "string"}},
                "requestBodies": {"content": {"application/json": {"schema": {"type": "string"}}}},
                "responses": {"description": "ok", "content": {"application/json": {"schema": {"type": "string"}}}}}
    comps.setdefault(sec, {})["ZzGood"] = good_obj[sec]
    comps.setdefault(other, {})["ZzGood"] = good_obj[other]
    comps[sec]["ZzSelf"] = {"$ref": f"#/components/{sec}/ZzSelf"}
    comps[sec]["ZzMutualA"] = {"$ref": f"#/components/{sec}/ZzMutualB"}
    comps[sec]["ZzMutualB"] = {"$ref": f"#/components/{sec}/ZzMutualA"}
    schema_name = ir["schemas"][0][0] if ir["schemas"] else "ZzNope"
    ref = BAD_REFS[bad["ref"]].format(sec=sec, other=other, good="ZzGood", schema=schema_name)
    if bad["ref"] in ("remote_file", "remote_url", "wrong_section") and bad["pos"] == "body" and "KF-C20-01" in _live and not ctx.replay:
        ctx.exclude("KF-C20-01")
        ref = BAD_REFS["dangling"].format(sec=sec)
    if bad["pos"] == "param":
        o.setdefault("parameters", []).append({"$ref": ref})
    elif bad["pos"] == "body":
        o["requestBody"] = {"$ref": ref}
    else:
        o["responses"]["418"] = {"$ref": ref}
    b = sut.generate(d, cfg=case.get("cfg") or {}, pkg_name="pkg")
    ctx.evals()
    site = {"pos": bad["pos"], "ref": bad["ref"]}
    try:
        if b.exc is not None:
            ctx.skip("generator_crashed")   # C06
            ctx.label("crash:" + b.exc_site["exc"])
            return
        if b.has_error_level:
            ctx.violation("malformed.not_whole_document", site, b.diag_text()[:300])
            return
        ident = f"{op['method'].upper()} {op['path']}"
        diag = b.diag_text()
        if ident not in diag:
            ctx.violation("malformed.using_item_diagnosed", site, f"no diagnostic names {ident}: {diag[:200]!r}")
        sb = sut.snapshot(b.out)
        for i, rel in mods.items():
            if i == bad["op"]:
                continue
            if sb.get(rel) != sa.get(rel):
                ctx.violation("malformed.others_untouched", site, rel)
        own_stem = os.path.basename(mods.get(bad["op"], "zz-none.py"))[:-3]
        for rel, data in sa.items():
            if not rel.startswith("models/") or rel == "models/__init__.py":
                continue   # the index may list fewer names
            stem = os.path.basename(rel)[:-3]
            if stem.replace("_", "").startswith(own_stem.replace("_", "")):  # module and class snake-casing differ ("v_1" vs "v1")
                continue   # inline models of the diagnosed operation itself
            if sb.get(rel) != data:
                ctx.violation("malformed.models_untouched", site, rel)
    finally:
        env.rm(os.path.dirname(b.out))
    ctx.nontrivial([doc, bad])
    ctx.sample = {"kind": "malformed", "bad": bad, "ref": ref}
