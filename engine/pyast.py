"""Static inspection of a generated tree: compile, import closure, identifier census."""
from __future__ import annotations

import ast
import io
import keyword
import os
import subprocess
import sys
import tokenize

ALLOWED_TOP = set(sys.stdlib_module_names) | {"httpx", "attrs", "attr", "dateutil"}


def py_files(root: str) -> list[str]:
    out = []
    for dp, dns, fns in os.walk(root):
        dns[:] = sorted(d for d in dns if d not in ("__pycache__", ".ruff_cache"))
        for fn in sorted(fns):
            if fn.endswith(".py"):
                out.append(os.path.join(dp, fn))
    return out


def module_kind(rel: str) -> str:
    parts = rel.replace("\\", "/").split("/")
    if "models" in parts:
        return "models_init" if parts[-1] == "__init__.py" else "model_or_enum"
    if "api" in parts:
        return "api_init" if parts[-1] == "__init__.py" else "endpoint"
    return parts[-1]


def compile_file(path: str):
    """Returns (tree, None) or (None, SyntaxError/ValueError)."""
    try:
        with open(path, "rb") as f:
            src = f.read()
        tree = ast.parse(src, filename=path)
        compile(src, path, "exec", dont_inherit=True)
        return tree, None
    except (SyntaxError, ValueError) as e:
        return None, e


def top_level_bindings(tree: ast.AST) -> set[str]:
    names: set[str] = set()

    def visit_body(body):
        for node in body:
            if isinstance(node, (ast.FunctionDef, ast.AsyncFunctionDef, ast.ClassDef)):
                names.add(node.name)
            elif isinstance(node, ast.Assign):
                for t in node.targets:
                    for n in ast.walk(t):
                        if isinstance(n, ast.Name):
                            names.add(n.id)
            elif isinstance(node, (ast.AnnAssign, ast.AugAssign)):
                if isinstance(node.target, ast.Name):
                    names.add(node.target.id)
            elif isinstance(node, ast.Import):
                for a in node.names:
                    names.add((a.asname or a.name).split(".")[0])
            elif isinstance(node, ast.ImportFrom):
                for a in node.names:
                    names.add(a.asname or a.name)
            elif isinstance(node, (ast.If, ast.Try)):
                visit_body(node.body)
                visit_body(getattr(node, "orelse", []))
                for h in getattr(node, "handlers", []):
                    visit_body(h.body)
                visit_body(getattr(node, "finalbody", []))
            elif isinstance(node, (ast.With, ast.For, ast.While)):
                visit_body(node.body)

    visit_body(getattr(tree, "body", []))
    return names


def check_imports(pkg_root: str, trees: dict[str, ast.AST]) -> list[tuple[str, dict, str]]:
    """Every relative import at any depth resolves to a generated file and a top-level binding; absolute ones are allowed deps."""
    problems = []
    bind_cache: dict[str, set[str] | None] = {}

    def bindings_of(path: str):
        if path not in bind_cache:
            t = trees.get(path)
            if t is None and os.path.exists(path):
                t, _ = compile_file(path)
            bind_cache[path] = top_level_bindings(t) if t is not None else None
        return bind_cache[path]

    for path, tree in trees.items():
        rel = os.path.relpath(path, pkg_root)
        here = os.path.dirname(path)
        for node in ast.walk(tree):
            if isinstance(node, ast.Import):
                for a in node.names:
                    top = a.name.split(".")[0]
                    if top not in ALLOWED_TOP:
                        problems.append(("imports.allowed_dependency", {"module": top, "kind": module_kind(rel)}, f"{rel}: import {a.name}"))
            elif isinstance(node, ast.ImportFrom):
                if node.level == 0:
                    top = (node.module or "").split(".")[0]
                    if top not in ALLOWED_TOP:
                        problems.append(("imports.allowed_dependency", {"module": top, "kind": module_kind(rel)}, f"{rel}: from {node.module} import ..."))
                    continue
                base = here
                for _ in range(node.level - 1):
                    base = os.path.dirname(base)
                if not os.path.abspath(base).startswith(os.path.abspath(pkg_root)):
                    problems.append(("imports.relative_resolves", {"why": "escapes_package", "kind": module_kind(rel)}, f"{rel}: level {node.level}"))
                    continue
                target = os.path.join(base, *(node.module.split(".") if node.module else []))
                if os.path.isfile(target + ".py"):
                    tfile = target + ".py"
                elif os.path.isfile(os.path.join(target, "__init__.py")):
                    tfile = os.path.join(target, "__init__.py")
                else:
                    problems.append(("imports.relative_resolves", {"why": "no_such_module", "kind": module_kind(rel)},
                                     f"{rel}: from {'.' * node.level}{node.module or ''} import ..."))
                    continue
                b = bindings_of(tfile)
                if b is None:
                    continue  # target does not compile: reported by the compile clause
                for a in node.names:
                    if a.name == "*":
                        continue
                    if a.name in b:
                        continue
                    sub = os.path.join(os.path.dirname(tfile), a.name) if tfile.endswith("__init__.py") else None
                    if sub and (os.path.isfile(sub + ".py") or os.path.isfile(os.path.join(sub, "__init__.py"))):
                        continue
                    problems.append(("imports.relative_resolves", {"why": "name_not_bound", "kind": module_kind(rel),
                                                                   "target_kind": module_kind(os.path.relpath(tfile, pkg_root))},
                                     f"{rel}: from {'.' * node.level}{node.module or ''} import {a.name}"))
    return problems


def ruff_undefined(root: str) -> list[str] | None:
    """ruff F821/F822 (undefined names) over a tree; None when ruff is not available."""
    exe = "/venv/bin/ruff"
    if not os.path.exists(exe):
        return None
    try:
        r = subprocess.run([exe, "check", "--select", "F821,F822", "--isolated", "--no-cache", "--output-format", "concise",
                            "--target-version", "py39", root], capture_output=True, text=True, timeout=60)
    except Exception:
        return None
    out = []
    for line in r.stdout.splitlines():
        if " F821 " in line or " F822 " in line:
            out.append(line)
    return out


def identifier_tokens(path: str) -> list[tuple[str, int]]:
    """NAME tokens straight from the token stream (ast NFKC-normalises identifiers, tokenize does not)."""
    out = []
    with open(path, "rb") as f:
        data = f.read()
    try:
        for tok in tokenize.tokenize(io.BytesIO(data).readline):
            if tok.type == tokenize.NAME:
                out.append((tok.string, tok.start[0]))
    except (tokenize.TokenError, SyntaxError, IndentationError):
        pass
    return out


def is_valid_identifier(s: str) -> bool:
    return s.isidentifier() and not keyword.iskeyword(s)


FRESH_IMPORT_SNIPPET = r'''
import importlib, importlib.util, os, sys, warnings
warnings.simplefilter("ignore")
pkg_dir = sys.argv[1]
name = "vpfresh"
spec = importlib.util.spec_from_file_location(name, os.path.join(pkg_dir, "__init__.py"), submodule_search_locations=[pkg_dir])
mod = importlib.util.module_from_spec(spec); sys.modules[name] = mod; spec.loader.exec_module(mod)
bad = []
for dp, dns, fns in os.walk(pkg_dir):
    dns[:] = [d for d in dns if d not in ("__pycache__", ".ruff_cache")]
    rel = os.path.relpath(dp, pkg_dir)
    for fn in fns:
        if not fn.endswith(".py"): continue
        parts = [] if rel == "." else rel.split(os.sep)
        if fn != "__init__.py": parts = parts + [fn[:-3]]
        m = ".".join([name] + parts)
        try:
            importlib.import_module(m)
        except BaseException as e:
            bad.append(f"{m}: {type(e).__name__}: {e}")
print("FRESH-IMPORT-RESULT", len(bad))
for b in bad[:5]: print(b)
'''


def fresh_import(pkg_dir: str) -> tuple[bool, str] | None:
    try:
        r = subprocess.run([sys.executable, "-I", "-B", "-c", FRESH_IMPORT_SNIPPET, pkg_dir], capture_output=True, text=True,
                           timeout=120)
    except Exception as e:
        return None
    if "FRESH-IMPORT-RESULT 0" in r.stdout:
        return True, ""
    return False, (r.stdout + r.stderr)[-600:]
