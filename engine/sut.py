"""Driving the system under test: generation (API / CLI), tree snapshots, loading generated packages."""
from __future__ import annotations

import contextlib
import hashlib
import importlib
import importlib.util
import io
import json
import os
import sys
import traceback
from dataclasses import dataclass, field
from pathlib import Path
from typing import Any

from . import env


@dataclass
class GenResult:
    out: str                      # project dir (may not exist)
    errors: list[Any] | None      # list of GeneratorError, None if an exception escaped
    exc: BaseException | None = None
    exc_site: dict | None = None  # root-cause key of an escaped exception
    stdout: str = ""
    project: Any = None           # the SUT's Project (parse results are used for *locating* artefacts only)
    package_dir: str | None = None

    @property
    def has_error_level(self) -> bool:
        return any(getattr(e.level, "name", str(e.level)) == "ERROR" for e in (self.errors or []))

    @property
    def accepted(self) -> bool:
        return self.exc is None and self.errors is not None and not self.has_error_level

    def diag_text(self) -> str:
        parts = []
        for e in self.errors or []:
            parts.append(f"{e.header or ''}\n{e.detail or ''}\n{_data_text(e)}")
        return "\n".join(parts)


def names_item(diag: str, ident: str) -> bool:
    """Does the diagnostics text name this item - as a whole word, not as part of a longer name (Bravo inside BravoKid)?"""
    import re

    return re.search(r"(?<![A-Za-z0-9_.\-])" + re.escape(str(ident)) + r"(?![A-Za-z0-9_\-]|\.[A-Za-z0-9_])", diag) is not None


def _data_text(e: Any) -> str:
    d = getattr(e, "data", None)
    if d is None:
        return ""
    try:
        return repr(d)
    except Exception:
        return ""


def exc_site(exc: BaseException) -> dict:
    """(type, innermost frame inside the SUT or generated code) = root-cause key of an exception."""
    tb = traceback.extract_tb(exc.__traceback__)
    where = None
    for fr in reversed(tb):
        fn = fr.filename
        if "openapi_python_client" in fn and "/verif/" not in fn:
            where = (os.path.basename(fn), fr.name)
            break
    if where is None:
        for fr in reversed(tb):
            if "/verif/engine" not in fr.filename and "hypothesis" not in fr.filename:
                where = (os.path.basename(fr.filename), fr.name)
                break
    if where is None and tb:
        where = (os.path.basename(tb[-1].filename), tb[-1].name)
    return {"exc": type(exc).__name__, "file": where[0] if where else "?", "func": where[1] if where else "?"}


def make_config(source: Path | str, out: Path | None, *, meta: str = "none", cfg: dict | None = None,
                overwrite: bool = False, encoding: str = "utf-8", hooks: bool = False):
    from openapi_python_client.config import Config, ConfigFile, MetaType

    cfg = dict(cfg or {})
    if not hooks and "post_hooks" not in cfg:
        cfg["post_hooks"] = []
    cf = ConfigFile(**cfg)
    return Config.from_sources(cf, MetaType(meta), source, encoding, overwrite, output_path=out)


def write_doc(doc: Any, *, as_yaml: bool = False, raw: bytes | None = None, suffix: str | None = None, raw_unicode: bool = False) -> str:
    d = env.fresh_dir("src")
    if raw is not None:
        p = os.path.join(d, "openapi" + (suffix or ".json"))
        with open(p, "wb") as f:
            f.write(raw)
        return p
    if as_yaml:
        p = os.path.join(d, "openapi" + (suffix or ".yaml"))
        from ruamel.yaml import YAML

        y = YAML()  # round-trip dumper: keeps mapping order (the safe dumper sorts keys, which is not "the same document")
        y.default_flow_style = False
        y.width = 4096
        with open(p, "w", encoding="utf-8") as f:
            y.dump(doc, f)
        return p
    p = os.path.join(d, "openapi" + (suffix or ".json"))
    with open(p, "w", encoding="utf-8") as f:
        json.dump(doc, f, ensure_ascii=not raw_unicode)   # raw_unicode: non-ASCII text as UTF-8 bytes, not as \u escapes
    return p


def generate(doc: Any = None, *, meta: str = "none", cfg: dict | None = None, out: str | None = None,
             overwrite: bool = False, as_yaml: bool = False, raw: bytes | None = None, suffix: str | None = None,
             source: str | None = None, pkg_name: str | None = None, hooks: bool = False, encoding: str = "utf-8",
             via_project: bool = True, custom_templates: str | None = None) -> GenResult:
    """Run the generator in-process through its public API. Never raises for SUT failures."""
    import openapi_python_client as opc

    src = source or write_doc(doc, as_yaml=as_yaml, raw=raw, suffix=suffix)
    if out is None:
        parent = env.fresh_dir("out")
        out = os.path.join(parent, pkg_name or "genpkg")
    buf = io.StringIO()
    res = GenResult(out=out, errors=None)
    try:
        source_arg: Any = src if (isinstance(src, str) and src.startswith("http")) else Path(src)
        config = make_config(source_arg, Path(out), meta=meta, cfg=cfg, overwrite=overwrite,
                             encoding=encoding, hooks=hooks)
        ctp = Path(custom_templates) if custom_templates else None
        with contextlib.redirect_stdout(buf):
            if via_project:
                project = opc._get_project_for_url_or_path(config=config, custom_template_path=ctp)
                if isinstance(project, opc.GeneratorError):
                    res.errors = [project]
                else:
                    res.project = project
                    res.package_dir = str(project.package_dir)
                    res.errors = list(project.build())
            else:
                res.errors = list(opc.generate(config=config, custom_template_path=ctp))
    except BaseException as e:  # noqa: BLE001 - an escaped exception is an observation
        if isinstance(e, (KeyboardInterrupt, SystemExit)) or type(e).__name__ in ("CaseTimeout",):
            raise
        res.exc = e
        res.exc_site = exc_site(e)
    res.stdout = buf.getvalue()
    if res.package_dir is None and os.path.isdir(out):
        res.package_dir = out
    return res


def cli(args: list[str], cwd: str | None = None):
    """Run the typer CLI in-process. Returns (exit_code, stdout, stderr, exception)."""
    from typer.testing import CliRunner

    from openapi_python_client.cli import app

    try:
        runner = CliRunner(mix_stderr=False)
    except TypeError:
        runner = CliRunner()
    old = os.getcwd()
    if cwd:
        os.chdir(cwd)
    try:
        r = runner.invoke(app, args, catch_exceptions=True)
    finally:
        os.chdir(old)
    try:
        err = r.stderr
    except Exception:
        err = ""
    exc = r.exception if (r.exception is not None and not isinstance(r.exception, SystemExit)) else None
    return r.exit_code, r.stdout, err, exc


# ---------------------------------------------------------------------------------- snapshots

def snapshot(root: str, ignore: tuple[str, ...] = (".ruff_cache", "__pycache__")) -> dict[str, bytes]:
    snap: dict[str, bytes] = {}
    if not os.path.isdir(root):
        return snap
    for dp, dns, fns in os.walk(root):
        dns[:] = sorted(d for d in dns if d not in ignore)
        rel = os.path.relpath(dp, root)
        if rel != ".":
            snap[rel + "/"] = b""
        for fn in sorted(fns):
            p = os.path.join(dp, fn)
            r = os.path.normpath(os.path.join(rel, fn))
            try:
                with open(p, "rb") as f:
                    snap[r] = f.read()
            except OSError:
                snap[r] = b"<unreadable>"
    return snap


def digest(snap: dict[str, bytes]) -> str:
    h = hashlib.sha256()
    for k in sorted(snap):
        h.update(k.encode("utf-8", "surrogateescape"))
        h.update(b"\0")
        h.update(snap[k])
        h.update(b"\0")
    return h.hexdigest()


def diff_snap(a: dict[str, bytes], b: dict[str, bytes]) -> dict:
    return {
        "only_a": sorted(set(a) - set(b)),
        "only_b": sorted(set(b) - set(a)),
        "differ": sorted(k for k in set(a) & set(b) if a[k] != b[k]),
    }


# ---------------------------------------------------------------------------------- loading generated code

_load_counter = 0


class Loaded:
    """A generated package imported under a unique top-level name."""

    def __init__(self, package_dir: str):
        global _load_counter
        _load_counter += 1
        self.dir = package_dir
        self.name = f"vpgen_{os.getpid()}_{_load_counter}"
        spec = importlib.util.spec_from_file_location(
            self.name, os.path.join(package_dir, "__init__.py"), submodule_search_locations=[package_dir]
        )
        assert spec and spec.loader
        mod = importlib.util.module_from_spec(spec)
        sys.modules[self.name] = mod
        try:
            spec.loader.exec_module(mod)
        except BaseException:
            self.close()
            raise
        self.pkg = mod

    def mod(self, rel: str):
        return importlib.import_module(f"{self.name}.{rel}" if rel else self.name)

    @property
    def models(self):
        return self.mod("models")

    @property
    def types(self):
        return self.mod("types")

    @property
    def client(self):
        return self.mod("client")

    @property
    def errors(self):
        return self.mod("errors")

    def all_module_names(self) -> list[str]:
        out = []
        for dp, dns, fns in os.walk(self.dir):
            dns[:] = sorted(d for d in dns if d not in ("__pycache__", ".ruff_cache"))
            rel = os.path.relpath(dp, self.dir)
            for fn in sorted(fns):
                if not fn.endswith(".py"):
                    continue
                parts = [] if rel == "." else rel.split(os.sep)
                if fn != "__init__.py":
                    parts = parts + [fn[:-3]]
                out.append(".".join(parts))
        return out

    def close(self) -> None:
        pref = self.name + "."
        for k in [k for k in sys.modules if k == self.name or k.startswith(pref)]:
            del sys.modules[k]
        importlib.invalidate_caches()

    def __enter__(self):
        return self

    def __exit__(self, *a):
        self.close()


sys.dont_write_bytecode = True
