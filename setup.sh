#!/bin/sh
# MANIFEST.setup_cmd: offline build of what the checks need (idempotent).
set -e
cd "$(dirname "$0")"
export PIP_NO_INDEX=1
WH=/opt/veriftools/wheels
PY=/venv/bin/python
$PY -c "import hypothesis" 2>/dev/null || /venv/bin/pip install -q --no-index --find-links $WH hypothesis
mkdir -p .deps .work evidence
$PY -c "import sys; sys.path.append('.deps'); import jsonschema" 2>/dev/null || \
  /venv/bin/pip install -q --no-index --find-links $WH --target .deps jsonschema >/dev/null 2>&1 || true
$PY -c "import sys; sys.path.append('.deps'); import atheris" 2>/dev/null || \
  /venv/bin/pip install -q --no-index --find-links $WH --target .deps atheris >/dev/null 2>&1 || true
PYTHONHASHSEED=0 $PY - <<'PY'
import sys
sys.path.insert(0, "/verif")
from engine import env
env.bootstrap(reexec=False)
import openapi_python_client, hypothesis
print("setup ok: sut", openapi_python_client.__file__, "hypothesis", hypothesis.__version__)
PY
