#!/usr/bin/env python3
"""Run the repository's pinned suite and compare with /root/.vp/BASELINE.json stable_pass."""
import json, subprocess, sys, tempfile, os
import xml.etree.ElementTree as ET
repo = sys.argv[1] if len(sys.argv) > 1 else "/repo"
out = tempfile.mktemp(suffix=".xml")
subprocess.run(["/venv/bin/python", "-m", "pytest", "-ra", "-q", "-p", "no:cacheprovider", "--timeout=900",
                "--continue-on-collection-errors", f"--junitxml={out}"], cwd=repo, capture_output=True)
base = set(json.load(open("/root/.vp/BASELINE.json"))["stable_pass"])
passed = set()
for tc in ET.parse(out).getroot().iter("testcase"):
    if not any(ch.tag in ("failure", "error", "skipped") for ch in tc):
        passed.add(f"{tc.get('classname')}::{tc.get('name')}")
os.unlink(out)
missing = sorted(base - passed)
print(f"baseline {len(base)} passed-now {len(passed & base)} missing {len(missing)}")
for m in missing[:30]:
    print("  MISSING", m)
sys.exit(1 if missing else 0)
