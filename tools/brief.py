#!/usr/bin/env python3
"""usage: tools/brief.py <PROP> [--no-worktree]   — creates the scratch worktree /tmp/wt-<PROP> of /repo HEAD and prints the brief for a
fresh sub-agent.  The brief contains only the property's text, the worktree path and one sentence per earlier seeded change
(what the sub-agents of earlier rounds wrote themselves) — nothing about /verif's checks."""
import json, os, subprocess, sys, glob

pid = sys.argv[1]
wt = f"/tmp/wt-{pid}"
if "--no-worktree" not in sys.argv:
    if not os.path.isdir(wt):
        subprocess.run(["git", "-C", "/repo", "worktree", "add", "--detach", wt, "HEAD"], check=True, capture_output=True)
    os.makedirs(wt + "-out/A", exist_ok=True)
    os.makedirs(wt + "-out/B", exist_ok=True)
    os.makedirs("/tmp/tools", exist_ok=True)
    subprocess.run(["cp", "/verif/tools/baseline.py", "/tmp/tools/baseline.py"], check=True)

prop = next(json.loads(l) for l in open("/verif/properties.jsonl") if json.loads(l)["id"] == pid)
earlier = []
for d in sorted(glob.glob(f"/verif/seeded/{pid}-*")):
    m = json.load(open(d + "/meta.json"))
    s = (m.get("breaks") or "").strip().replace("\n", " ")
    earlier.append("- " + s[:420] + ("…" if len(s) > 420 else ""))

print(f"""You are helping to evaluate a test-and-verification effort for the open-source code generator openapi-python-client (Python; it parses
OpenAPI 3.0/3.1 documents and renders typed httpx client packages through Jinja2 templates). Your job is to play a careless-but-plausible
maintainer: produce TWO independent changes ("A" and "B") to the generator, each of which silently BREAKS the property below while the
code still imports and the repository's existing test suite still passes.

PROPERTY {pid} — {prop['title']}
Statement: {prop['statement']}
Quantified over: {prop['quantifier']['text']}
Code anchors (where the behaviour lives): {json.dumps(prop.get('anchors'))}

Your scratch git worktree of the repository is {wt} (a detached worktree of HEAD). Work ONLY there and in {wt}-out/. Do not read or
touch /repo, /verif or anything else outside these; do not commit and do not use `git stash` (the stash is shared with other worktrees). Python to use: /venv/bin/python (has the repository's dependencies,
httpx, attrs, mypy, ruff at /venv/bin/ruff). Run code against your worktree by putting it first on sys.path
(`sys.path.insert(0, TREE)` with TREE = os.environ.get("TREE", "{wt}")) — the installed package otherwise points elsewhere. No network.
In-process generation recipe:
    from openapi_python_client import generate; from openapi_python_client.config import Config, ConfigFile, MetaType
    config = Config.from_sources(ConfigFile(post_hooks=[]), MetaType.NONE, document_path, "utf-8", True, output_path)   # read the signature in config.py
    errors = generate(config=config)

What kind of change I want. Each change must
 * look like something a maintainer could plausibly merge (a refactor, a "simplification", an optimisation, a tidy-up, a small feature) —
   not sabotage, not a commented-out line;
 * break the property ONLY when something specific is present: an unusual but valid input shape, a particular combination of two or three
   features, an ordering of declarations, a boundary value, a multi-step sequence of operations, a configuration option combined with a
   document feature, a generated runtime helper used in a rare way, or two cooperating edits that each look fine alone. Ordinary use (the
   typical petstore-like document) must still work, so that the breakage would not be noticed at once;
 * keep the existing test suite green: run `/venv/bin/python /tmp/tools/baseline.py {wt}` with the change applied; it must print
   `baseline 403 passed-now 403 missing 0` (takes about a minute);
 * be independent of the other change (A and B in different places, with different mechanisms and triggers).

Earlier changes that others already produced for this property — do NOT repeat these mechanisms, locations or triggers; find something
different (other files, other features, other kinds of trigger):
{chr(10).join(earlier) if earlier else '- (none)'}

Deliverables, for each of A and B, in {wt}-out/A and {wt}-out/B:
 * patch.diff — `git -C {wt} diff > {wt}-out/A/patch.diff` with ONLY that change applied (reset the worktree with `git -C {wt} checkout -- .`
   between A and B so the two patches are independent and each applies to a clean HEAD);
 * demo.py — a self-contained program (no pytest needed) that takes the tree from the TREE environment variable as shown above, exits 0 on
   the clean tree and exits 1 (with a short explanation on stdout) when the change is applied. It must demonstrate a violation of the
   property as stated, on an input that is inside the property's quantifier. It should finish within a minute or two and write only to a
   temporary directory that it removes;
 * meta.json — {{"property": "{pid}", "summary": "...what was changed, file and function...", "needs": "...what specific
   input/sequence/combination is required for it to manifest, and what is unaffected...", "verified": "...the commands you ran and what they
   printed: demo on clean tree, demo with the patch, baseline with the patch..."}}.

Before you finish: verify each demo exits 0 on the clean worktree and 1 with its patch, verify the baseline with each patch, then leave the
worktree clean (`git -C {wt} checkout -- .`, no stray files). If, while reading the code, you notice a genuine defect of the UNCHANGED code
with respect to this property, mention it in your final message (input + what goes wrong) — briefly. Your final message: three or four
sentences per change (what, where, what it needs), plus the list of files written.""")
