#!/bin/sh
# usage: tools/confirm_seed.sh <dir-with patch.diff+demo.py> <PROPERTY-ID> [check args]
# Confirms a seeded change independently: demo passes on clean tree, fails with patch, baseline suite still passes;
# then runs our check on the patched copy. Everything happens in a scratch copy that is removed afterwards.
SRC=$(realpath "$1"); ID=$2; shift 2
D=$(mktemp -d /tmp/verif-seed-XXXXXX)
trap 'rm -rf "$D"' EXIT
git -C /repo archive HEAD | tar -x -C "$D"
cd "$D"
TREE="$D" timeout 600 /venv/bin/python "$SRC/demo.py" >/dev/null 2>&1; echo "demo_clean_exit=$?"
if ! git apply --unsafe-paths "$SRC/patch.diff" 2>/dev/null; then patch -p1 -s < "$SRC/patch.diff" || { echo "PATCH DOES NOT APPLY"; exit 3; }; fi
TREE="$D" timeout 600 /venv/bin/python "$SRC/demo.py" >/dev/null 2>&1; echo "demo_patched_exit=$?"
/venv/bin/python /verif/tools/baseline.py "$D" | head -3
cd /verif
VERIF_REPO="$D" ./check "$ID" "$@" 2>&1 | grep -E "^(VIOLATION|C[0-9]+ |HARNESS|  clause)" | cut -c1-330 | head -${SEED_LINES:-8}
