#!/usr/bin/env python3
"""Replaces the generated blocks of DESIGN.md (findings, fixed, seeded) with the output of tools/design_tables.py."""
import os, re, subprocess, sys
here = os.path.dirname(os.path.dirname(os.path.abspath(__file__)))
out = subprocess.run([sys.executable, os.path.join(here, "tools", "design_tables.py")], capture_output=True, text=True, check=True).stdout
p = os.path.join(here, "DESIGN.md")
s = open(p, encoding="utf-8").read()
for name in ("findings", "fixed", "seeded"):
    m = re.search(rf"<!-- BEGIN GENERATED: {name} -->.*?<!-- END GENERATED: {name} -->", out, re.S)
    s, n = re.subn(rf"<!-- BEGIN GENERATED: {name} -->.*?<!-- END GENERATED: {name} -->", lambda _m: m.group(0), s, flags=re.S)
    assert n == 1, name
open(p, "w", encoding="utf-8").write(s)
print("DESIGN.md tables refreshed")
