#!/usr/bin/env python3
"""Prints the generated parts of DESIGN.md: known findings, fixed defects, seeded changes."""
import glob, json, os
HERE = os.path.dirname(os.path.dirname(os.path.abspath(__file__)))
print("<!-- BEGIN GENERATED: findings -->")
print("| id | property | root cause | what fails (identified by clause + site pattern, see known_findings.jsonl) |")
print("|---|---|---|---|")
fixed = []
for line in open(os.path.join(HERE, "known_findings.jsonl")):
    line = line.strip()
    if line.startswith("fixed:"):
        fixed.append(line)
        continue
    if not line.startswith("{"):
        continue
    d = json.loads(line)
    print(f"| {d['id']} | {d['property']} | {d.get('root_cause','')} | {d['what'].replace('|','/')} |")
print("<!-- END GENERATED: findings -->\n")
print("<!-- BEGIN GENERATED: fixed -->")
for f in fixed:
    print("* " + f)
print("<!-- END GENERATED: fixed -->\n")
print("<!-- BEGIN GENERATED: seeded -->")
print("| seeded change | what it breaks / what it needs | result with our checks |")
print("|---|---|---|")
for m in sorted(glob.glob(os.path.join(HERE, "seeded", "*", "meta.json"))):
    d = json.load(open(m))
    name = os.path.basename(os.path.dirname(m))
    br = (d.get("breaks") or "").replace("|", "/").replace("\n", " ")[:260]
    nd = (d.get("needs_to_manifest") or "").replace("|", "/").replace("\n", " ")[:220]
    oc = d["our_check"]
    print(f"| {name} | {br} **Needs:** {nd} | **{oc['status']}** - {oc['note'].replace('|','/')} |")
print("<!-- END GENERATED: seeded -->")
