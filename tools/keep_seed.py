#!/usr/bin/env python3
"""usage: keep_seed.py <PROP> <A|B> <caught|missed> "<which check/clause or why missed>"  — files a confirmed seeded change under /verif/seeded/"""
import json, os, shutil, sys
pid, v, status, note = sys.argv[1:5]
as_ = sys.argv[5] if len(sys.argv) > 5 else v      # round 2 deliveries (A, B) are filed as C, D
src = f"/tmp/wt-{pid}-out/{v}"
dst = f"/verif/seeded/{pid}-{as_}"
os.makedirs(dst, exist_ok=True)
for f in ("patch.diff", "demo.py"):
    shutil.copy(os.path.join(src, f), os.path.join(dst, f))
m = json.load(open(os.path.join(src, "meta.json")))
meta = {
    "property": pid,
    "breaks": m.get("summary"),
    "needs_to_manifest": m.get("needs"),
    "author": "independent sub-agent given only the property text and a scratch worktree",
    "confirmed_by_me": f"tools/confirm_seed.sh {src} {pid}: demo exit 0 on clean copy of /repo HEAD, exit 1 with patch.diff applied, tools/baseline.py reports 403/403 baseline tests passing with the patch",
    "our_check": {"status": status, "note": note, "command": f"VERIF_REPO=<patched copy> ./check {pid} --tier quick"},
    "agent_verification_notes": m.get("verified"),
}
json.dump(meta, open(os.path.join(dst, "meta.json"), "w"), indent=1)
print("kept", dst)
