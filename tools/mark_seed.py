#!/usr/bin/env python3
"""usage: mark_seed.py <ID-LETTER> "<what was added and which clause now reports it>"  — a seeded change missed at first is now caught"""
import json, sys
d = f"/verif/seeded/{sys.argv[1]}/meta.json"
m = json.load(open(d))
m["our_check"]["status"] = "caught"
m["our_check"]["note"] = "missed at first; " + sys.argv[2]
json.dump(m, open(d, "w"), indent=1)
print("marked", sys.argv[1])
