#!/bin/sh
# usage: tools/mutant.sh <patch-file> <ID> [extra check args]   -- runs a check against a scratch copy with the patch applied
set -e
PATCH=$(realpath "$1"); ID=$2; shift 2
D=$(mktemp -d /tmp/verif-mutant-XXXXXX)
trap 'rm -rf "$D"' EXIT
git -C /repo archive HEAD openapi_python_client | tar -x -C "$D"
( cd "$D" && git apply --unsafe-paths -p1 "$PATCH" 2>/dev/null || patch -p1 -s < "$PATCH" )
cd /verif
set +e
VERIF_REPO="$D" ./check "$ID" "$@" 2>&1 | grep -E "^(VIOLATION|KNOWN|C[0-9]+ |HARNESS|  clause)" | head -${MUTANT_LINES:-12}
echo "exit=$?"
