#!/bin/sh
# usage: tools/seed_regress.sh [ID-prefix]   -- re-runs every kept seeded change against its property's quick check
# (one scratch copy per seed under /dev/shm, removed afterwards); prints one line per seed: caught / MISSED
cd "$(dirname "$0")/.." || exit 2
HERE=$(pwd)
for d in seeded/${1:-C}*; do
  name=$(basename "$d"); id=${name%%-*}
  if grep -q "obsolete on the repaired tree" "$d/meta.json"; then echo "$name obsolete (upstream repair made the seeded edit a no-op)"; continue; fi
  D=$(mktemp -d /dev/shm/verif-regress-XXXXXX)
  git -C /repo archive HEAD | tar -x -C "$D"
  ( cd "$D" && { git apply --unsafe-paths "$HERE/$d/patch.diff" 2>/dev/null || patch -p1 -s < "$HERE/$d/patch.diff"; } ) >/dev/null 2>&1 || { echo "$name PATCH-DOES-NOT-APPLY"; rm -rf "$D"; continue; }
  out=$(VERIF_REPO="$D" ./check "$id" --no-shrink 2>&1)
  n=$(printf '%s\n' "$out" | grep -c '^VIOLATION')
  h=$(printf '%s\n' "$out" | grep -c 'HARNESS')
  if [ "$n" -gt 0 ]; then echo "$name caught ($n buckets)"; elif [ "$h" -gt 0 ]; then echo "$name HARNESS-ERROR"; else echo "$name MISSED"; fi
  rm -rf "$D"
done
