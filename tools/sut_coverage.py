#!/venv/bin/python
"""usage: tools/sut_coverage.py [ID ...]   — measurement aid for the generators, not a check.
Runs the quick tier of the named checks (default: all) against a scratch copy of /repo HEAD + working tree with line/branch
coverage of the generator's own Python sources switched on in every worker, and prints, per source file, the lines no check
reached.  Unreached parser branches are where a generator has no reason to go yet."""
import glob, os, shutil, subprocess, sys

import coverage

ids = sys.argv[1:] or [f"C{n:02d}" for n in range(1, 21)]
scratch = "/dev/shm/verif-cov-repo"
covdir = "/dev/shm/verif-cov-data"
shutil.rmtree(scratch, ignore_errors=True)
shutil.rmtree(covdir, ignore_errors=True)
os.makedirs(scratch)
subprocess.run("git -C /repo ls-files -z | (cd /repo && xargs -0 cp --parents -t %s)" % scratch, shell=True, check=True)
env = dict(os.environ, VERIF_REPO=scratch, VERIF_COV=covdir, COVERAGE_CORE="sysmon")
for i in ids:
    r = subprocess.run(["./check", i, "--tier", "quick", "--no-shrink"], cwd="/verif", env=env, capture_output=True, text=True)
    print(i, "exit", r.returncode, r.stdout.strip().splitlines()[-1][:160] if r.stdout.strip() else "")
files = glob.glob(covdir + "/cov.*")
cov = coverage.Coverage(data_file=covdir + "/combined", branch=True, config_file=False)
cov.combine(files, keep=False)
cov.save()
data = cov.get_data()
out = []
for f in sorted(data.measured_files()):
    if not f.endswith(".py"):
        continue
    try:
        _, stmts, _, missing, mtxt = cov.analysis2(f)
    except Exception as e:  # noqa: BLE001
        out.append(f"{f}: {e}")
        continue
    an = cov._analyze(f)
    mb = an.missing_branch_arcs()
    rel = f.replace(scratch + "/", "")
    out.append(f"{rel}: {len(stmts) - len(missing)}/{len(stmts)} lines; missing lines {mtxt}; partial branches "
               + ", ".join(f"{a}->{'|'.join(map(str, bs))}" for a, bs in sorted(mb.items()) if a not in missing))
print("\n".join(out))
shutil.rmtree(scratch, ignore_errors=True)
