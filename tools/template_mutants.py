#!/venv/bin/python
"""usage: tools/template_mutants.py [--n 24] [--seed 1] [--panel C01,C02,...] [--keep-failing-baseline]
Mechanical sensitivity probe, independent of the hand-seeded changes: samples N conditionals of the Jinja templates
(`{% if C %}` -> `{% if not (C) %}`, `{% elif C %}` likewise) and comparisons of the parser (`==` <-> `!=`, `and` <-> `or` on one line),
keeps those under which the repository's pinned suite still passes, runs a panel of quick checks against each surviving mutant in a
scratch copy and prints one JSON line per mutant: which checks report a VIOLATION.  A mutant no check reports is either equivalent
(the branch cannot be told apart through any property) or a gap; the list is read by hand.  Nothing is written under /repo."""
import argparse, json, os, random, re, shutil, subprocess, sys, tempfile

ap = argparse.ArgumentParser()
ap.add_argument("--n", type=int, default=24)
ap.add_argument("--seed", type=int, default=1)
ap.add_argument("--panel", default="C01,C02,C03,C04,C07,C08,C10,C13,C14,C20")
ap.add_argument("--kinds", default="template,parser")
a = ap.parse_args()
HERE = os.path.dirname(os.path.dirname(os.path.abspath(__file__)))
REPO = "/repo"
sites = []
if "template" in a.kinds:
    for dp, _, fns in os.walk(os.path.join(REPO, "openapi_python_client", "templates")):
        for fn in sorted(fns):
            if not fn.endswith(".jinja"):
                continue
            p = os.path.join(dp, fn)
            for i, line in enumerate(open(p, encoding="utf-8").read().split("\n")):
                for m in re.finditer(r"{%-?\s*(if|elif)\s+(.*?)\s*-?%}", line):
                    sites.append(("template", os.path.relpath(p, REPO), i, m.start(2), m.end(2), m.group(2)))
if "parser" in a.kinds:
    for dp, _, fns in os.walk(os.path.join(REPO, "openapi_python_client", "parser")):
        for fn in sorted(fns):
            if not fn.endswith(".py"):
                continue
            p = os.path.join(dp, fn)
            for i, line in enumerate(open(p, encoding="utf-8").read().split("\n")):
                st = line.strip()
                if not st.startswith(("if ", "elif ", "while ")) or st.startswith("if TYPE_CHECKING"):
                    continue
                for m in re.finditer(r" (==|!=|and|or|is not|is) ", line):
                    sites.append(("parser", os.path.relpath(p, REPO), i, m.start(1), m.end(1), m.group(1)))
rng = random.Random(a.seed)
rng.shuffle(sites)
panel = a.panel.split(",")
done = 0
for kind, rel, ln, s0, s1, text in sites:
    if done >= a.n:
        break
    d = tempfile.mkdtemp(prefix="verif-mut-", dir="/dev/shm")
    try:
        subprocess.run(f"git -C {REPO} archive HEAD | tar -x -C {d}", shell=True, check=True)
        p = os.path.join(d, rel)
        lines = open(p, encoding="utf-8").read().split("\n")
        if kind == "template":
            new = f"not ({text})"
        else:
            new = {"==": "!=", "!=": "==", "and": "or", "or": "and", "is not": "is", "is": "is not"}[text]
        lines[ln] = lines[ln][:s0] + new + lines[ln][s1:]
        open(p, "w", encoding="utf-8").write("\n".join(lines))
        r = subprocess.run(["/venv/bin/python", os.path.join(HERE, "tools", "baseline.py"), d], capture_output=True, text=True)
        rec = {"kind": kind, "file": rel, "line": ln + 1, "was": text, "now": new, "baseline_passes": r.returncode == 0}
        if r.returncode != 0:
            rec["baseline"] = r.stdout.strip().splitlines()[0] if r.stdout.strip() else "?"
            print(json.dumps(rec), flush=True)
            continue
        done += 1
        killed = []
        for pid in panel:
            out = subprocess.run(["./check", pid, "--no-shrink"], cwd=HERE, env=dict(os.environ, VERIF_REPO=d), capture_output=True, text=True).stdout
            if "\nVIOLATION" in "\n" + out:
                cl = sorted(set(re.findall(r"clause=(\S+)", out)))[:3]
                killed.append([pid, cl])
            elif "HARNESS" in out:
                killed.append([pid, ["HARNESS-ERROR"]])
        rec["reported_by"] = killed
        print(json.dumps(rec), flush=True)
    finally:
        shutil.rmtree(d, ignore_errors=True)
