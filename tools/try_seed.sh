#!/bin/sh
# usage: tools/try_seed.sh <dir-with patch.diff> <ID> [<ID> ...]   -- runs several quick checks against one patched scratch copy
SRC=$(realpath "$1"); shift
D=$(mktemp -d /dev/shm/verif-try-XXXXXX)
trap 'rm -rf "$D"' EXIT
git -C /repo archive HEAD | tar -x -C "$D"
( cd "$D" && { git apply --unsafe-paths "$SRC/patch.diff" 2>/dev/null || patch -p1 -s < "$SRC/patch.diff"; } ) || { echo "PATCH DOES NOT APPLY"; exit 3; }
cd /verif
for ID in "$@"; do
  VERIF_REPO="$D" ./check "$ID" --no-shrink ${TRY_ARGS:-} 2>&1 | grep -E "^(VIOLATION|C[0-9]+ |HARNESS|  clause)" | cut -c1-300 | head -${SEED_LINES:-6}
done
