#!/usr/bin/env python3
"""Regenerates MANIFEST.json from the table below (kept in one place so it is always valid)."""
import json, os

HERE = os.path.dirname(os.path.abspath(__file__))
BASELINE = "cd /repo && /venv/bin/python -m pytest -ra -q -p no:cacheprovider --timeout=900 --continue-on-collection-errors"

CHECKS = {
    "C06": dict(
        technique="property-based testing: Hypothesis junk-mutation / byte / JSON-value fuzzing of the generator with a no-exception + exit-code-agreement oracle (atheris campaign in thorough tier)",
        text="Generated-input search: thousands of mutated documents, raw byte strings and arbitrary JSON values per run are fed through the public generate() API and the CLI; any escaped exception (bucketed by type + innermost generator frame), any disagreement between exit status / banner / written output and the returned diagnostics, and any confirmed non-termination is a violation. Exploration cannot show absence; hangs are refuted only up to a two-stage time limit.",
        note="trusts typer's CliRunner as a faithful stand-in for the console script; post-hooks disabled; YAML alias bombs excluded by construction",
        design="3/C06"),
}

CHECKS.update({
    "C01": dict(
        technique="property-based testing: Hypothesis documents with identifier-hostile names x 4 metadata flavours x switches; validity-predicate oracle (compile, import in-process and in a fresh interpreter, relative-import closure by AST, ruff F821/F822, tomllib)",
        text="Hundreds (quick) to thousands (thorough) of generated documents per run are pushed through the generator and every emitted file is compiled, every module imported, every relative import at any depth resolved to a generated binding and pyproject.toml parsed. Finds classes of input that break importability; cannot show absence.",
        note="name pool is quote-free by the property's own quantifier; scope-distinct names (merging is C09); known narrow classes are excluded by construction while their findings are live and counted in evidence",
        design="3/C01"),
    "C02": dict(
        technique="property-based testing: round-trip oracle (from_dict/to_dict) over Hypothesis-generated schemas and jsonschema-cross-validated instances",
        text="For every generated object component several schema-valid instances (all presence patterns, nulls, union branches, extra keys) are decoded, re-encoded and compared under strict JSON equality, then re-decoded and compared for object equality; the encoded form must be plain JSON. ~4k (quick) to ~190k (thorough) round trips per run.",
        note="instances are produced by the harness' own generator and cross-checked with jsonschema; plain strings never look like dates/uuids; three narrow union classes are listed findings",
        design="3/C02"),
    "C03": dict(
        technique="property-based testing: reference model of the wire request vs requests captured by an httpx MockTransport, sync vs asyncio differential",
        text="Generated operations (all methods, parameters of every kind in every location, JSON/form/multipart/octet bodies, security) are called with generated arguments through the generated sync_detailed and asyncio_detailed functions; the single captured request must match a reference model (method, path slots, query/header/cookie names and typed parse-back of values, omitted optionals absent, body content and Content-Type, credential header) and both variants must send the same request.",
        note="python argument names are looked up in the generator's parse result (locating only); text forms compared by typed parse-back; six narrow classes are listed findings and excluded by construction",
        design="3/C03"),
    "C04": dict(
        technique="property-based testing: reference decode of served responses (canned httpx responses through a MockTransport) over all four call variants",
        text="For generated operations every documented status is served with an encoded schema-valid instance and undocumented statuses with arbitrary bodies, under both raise_on_unexpected_status settings and all four call variants; parsed values are compared with the instance by generic re-encoding plus kind-specific type checks; status/headers/content of detailed variants are compared exactly.",
        note="empty/Any schemas and non-string schemas under text/* are asserted only for status/headers/content; non-standard server status codes are a listed finding",
        design="3/C04"),
})

CHECKS.update({
    "C14": dict(
        technique="property-based testing: Hypothesis value lists x both enum styles, membership oracle through a holder model with generated near-miss negatives",
        text="For thousands of generated enum value lists and const values per run, every listed value must decode to itself and re-encode unchanged, the generated class/Literal must have exactly one member per value, null must map to None, and 10-16 near-miss unlisted values per case must be rejected.",
        note="generator crashes/diagnostics on a list are not judged here; four narrow classes are listed findings",
        design="3/C14"),
})

CHECKS.update({
    "C13": dict(
        technique="property-based testing: exhaustive kind x default-pool x route matrix plus Hypothesis-drawn JSON defaults, reference-conversion oracle",
        text="Every cell of a fixed matrix (15 kinds x valid/lenient/invalid/non-finite pools x model/query/header/cookie routes x enum styles, ~470 generations) plus random JSON defaults: a valid default must become an equal typed Python default that is encoded/sent when the argument is omitted; an invalid one must be diagnosed and never emitted; documented lenient conversions may go either way but must be typed correctly.",
        note="pool boundaries follow the project's own documented conversions; ambiguous union defaults are counted, not judged; array/object/null kinds are outside the quantifier",
        design="3/C13"),
})

CHECKS.update({
    "C10": dict(
        technique="property-based testing: exhaustive kind x required x nullable-notation x default x position matrix (packed) plus Hypothesis-drawn cell packs; signature/annotation/decode/encode/transmission oracles",
        text="Every applicable cell of the matrix (~420 cells, all four nullable notations, both enum styles, model/query/header/cookie positions) is generated and checked: mandatory vs defaulted constructor/function parameter, annotation admits None iff nullable and Unset iff optional, absent reads back UNSET and is not encoded/sent, null decodes to None and re-encodes as null, a present value stays distinct. Random packs vary which cells share a document.",
        note="nullable is computed from the cell with JSON-Schema semantics (enum + nullable:true without null member is not nullable); parameters have no null wire form so only signature/type/transmission are checked there",
        design="3/C10"),
    "C18": dict(
        technique="property-based testing: exhaustive sweep over identifiers harvested at run time from the generator's own output, metamorphic round-trip / wire oracle against fixed shapes",
        text="~1800 candidate names (every identifier the generated modules use themselves, keywords, builtins, case/underscore variants, 50 controls) are each placed in six model shapes and in four parameter locations with and without a body; decode/encode round trips and captured requests must be exactly what the shape prescribes under that wire name.",
        note="list is harvested from the tree under test so it follows template edits; candidates refused with a diagnostic are counted not judged",
        design="3/C18"),
})

CHECKS.update({
    "C12": dict(
        technique="property-based testing: differential oracle between runs of the same code under different PYTHONHASHSEED values (subprocess per seed) and under permutations of components.schemas / paths",
        text="Batches of generated reference-rich documents are generated in one subprocess per hash seed (6 seeds, one repeated, first document regenerated at the end of each process) and tree digests compared; clean documents are regenerated under all (<=4 entries) or sampled permutations of their schema and path maps and compared byte for byte, with and without the ruff post-hooks.",
        note="hash-seed independence is sampled, not exhaustive; documents with diagnostics are outside the permutation clause by the statement's own wording",
        design="3/C12"),
})

CHECKS.update({
    "C17": dict(
        technique="property-based testing: metamorphic oracle - the same IR rendered under two equivalent notations must give byte-identical trees and diagnostics",
        text="Clean generated documents are rendered twice from one intermediate representation, the second time with drawn choices among equivalent spellings at every applicable position (nullable:true / type list / null member, enum-with-null / oneOf[null, enum], bare $ref / single-element allOf|oneOf|anyOf wrapper), optionally serialised as YAML and fetched from a loopback URL; snapshots and diagnostics must be identical; a differing case is attributed to one rewrite family by re-rendering with one family at a time.",
        note="rewrites preserve member order and place descriptions where the generator's own normaliser places them; both renderings declare 3.1.0",
        design="3/C17"),
})

CHECKS.update({
    "C08": dict(
        technique="property-based testing: metamorphic oracle - tree of a clean document vs the same document with 1-3 generated bad-piece insertions; containment computed by the harness' own reverse reachability",
        text="For clean generated documents, 1-3 faults from a catalogue (bad property in a component, broken new components, incompatible allOf child, optional path parameter, duplicated parameter, unparseable/unsupported body, invalid status, dangling response schema, bad path-item parameter shadowed by one operation) are inserted at random hosts; every file whose owner neither is a host nor reaches one must survive byte-identical, omitted owners must be named by a diagnostic, and what remains must compile, resolve every relative import and import.",
        note="Affected over-approximates so better containment never alarms; ownership by module-name prefix relies on the safe naming scheme",
        design="3/C08"),
})

CHECKS.update({
    "C20": dict(
        technique="property-based testing: metamorphic oracle - inline vs by-reference renderings of the same IR (byte comparison of endpoint modules; behavioural comparison and class identity for schemas); fault insertion of malformed reference strings",
        text="(a) drawn subsets of parameters, request bodies (through chains of 1-3 body references) and responses are moved to components under variously spelled keys and used by $ref: endpoint modules and diagnostics must be identical; (b) drawn subsets of schema $refs are replaced by inline copies: the same instances must behave identically through both packages and every reference to one schema must reach one class object; (c) nine kinds of malformed reference at parameter/body/response/schema positions must be diagnosed for the using item and leave everything else untouched.",
        note="schema inlining is behavioural by the statement's own distinction; recursive components are never inlined; schema-position (c) reuses the C08 containment oracle",
        design="3/C20"),
})

CHECKS.update({
    "C15": dict(
        technique="property-based testing: exhaustive shared-property kind matrix in both member orders against a reference lattice (metamorphic order-independence + reference model), plus Hypothesis compositions with round-trip oracle",
        text="All 276 unordered pairs of 23 property kinds are declared under one name by two allOf members and generated in both member orders; pairs that have a conjunction are additionally swept over every requiredness combination, member style (ref/inline) and a separately written required list. The composed attribute's type (read semantically from annotations) must be order-independent and the lattice's meet, or the pair must be diagnosed; mandatory iff any member requires. Random compositions (chains, parents after children, inherited-required, sibling-style own properties) check attribute set, requiredness and instance round trips.",
        note="semantic comparison ignores inline-enum class names; a diagnostic is always acceptable where a meet exists; parent-class rewriting is labelled here and judged by C11",
        design="3/C15"),
})

CHECKS.update({
    "C07": dict(
        technique="property-based testing: census oracle over marker-carrying generated documents with deliberately coinciding names and inserted faults",
        text="Every object description, enum value and operation summary of a generated document carries a unique marker; names, operationIds, titles and tags come from pools built to coincide; faults are inserted at random. After generation each operation and each object/enum component must be found by its marker in a generated module or be identified (by name, reference path or METHOD path) in a diagnostic; every documented status of a generated operation must be handled (served under raise_on_unexpected_status it does not raise) or named in one of that operation's warnings; request media types must be selectable or warned.",
        note="wording of diagnostics is never matched; scalar/array components are outside the census; generator crashes are C06's",
        design="3/C07"),
})

CHECKS.update({
    "C09": dict(
        technique="property-based testing: exhaustive per-code-point sweep of the naming functions (all 1.1M code points x 3 positions x 2 functions) plus Hypothesis near-duplicate name sets placed in real document scopes with a count-or-diagnostic oracle",
        text="(i) every Unicode code point in leading, inner and trailing position through the attribute/module and class naming functions must yield a non-keyword identifier (6.7M calls in quick, x5 prefixes in thorough); (ii) sets of identifier-hostile names and their case/delimiter/prefix/NFKC variants are placed together as one model's properties, one operation's parameters, the component names, one enum's values, one tag's operationIds, an allOf composition's properties, an inline-vs-component class-name clash and the title: every file must compile, path components must be identifiers, and each scope must keep as many Python names as document names or issue a diagnostic.",
        note="(i) calls two internal naming functions (also used by the pinned tests); nine narrow classes are listed findings identified by scope + name-shape flags",
        design="3/C09"),
})

CHECKS.update({
    "C05": dict(
        technique="fuzzing-style injection testing: complete slot x payload-class matrix over a carrier document (slots discovered by a generic walker) plus Hypothesis multi-slot combinations; AST/token canary oracle and string-constant fidelity oracle",
        text="Every string-valued leaf and name-bearing key of a rich carrier document (76 slots) is injected with each of 22 canary-framed hostile payload classes (1672 generations every run), then 2-8 slot combinations under random configurations: every generated file must compile, the call token must never appear as a Name/Attribute/Call, no canary may sit in a comment, pyproject.toml must parse with the expected values, and run-time meaningful text must reappear as an identical string constant or be rejected with a diagnostic. Multi-slot failures are reduced to a 1-minimal slot set before matching.",
        note="nothing generated is imported or executed; 'becomes code' is exact identifier equality with the call token; eight root causes are listed findings keyed by (sink pattern, payload class)",
        design="3/C05"),
})

CHECKS.update({
    "C19": dict(
        technique="property-based testing, model-based: Hypothesis-generated command histories (generate / add user file / touch sentinel) executed through the CLI against a reference model of the expected tree, invariants checked after every step",
        text="Histories of 2-8 (thorough: 2-15) commands over a pool of documents with traversal-shaped titles, tags, schema, operation, property and enum names are run against one sandbox directory: after every step nothing outside the addressed output directory may have changed or appeared; without --overwrite an existing directory must stay byte-identical with an error and exit code 1; with --overwrite (same names and flavour) the tree must equal a fresh generation of the current document plus the untouched user files.",
        note="histories are step lists from a composite strategy (one shrinkable value) rather than a RuleBasedStateMachine class; flavour or title changes between generations into one directory restrict the step to the containment invariant",
        design="3/C19"),
})

CHECKS.update({
    "C16": dict(
        technique="property-based testing: one metamorphic relation per configuration option between an 'off' and an 'on' generation (byte comparison after undoing the option's own renaming; behavioural comparison through decode/encode and request kwargs)",
        text="A deterministic sweep (every option with each of its value shapes on a fixed reference-rich document) plus Hypothesis-generated documents with one option at a time: name and version overrides, class_overrides, field_prefix, use_path_prefixes_for_title_model_names, literal_enums, docstrings_on_attributes, generate_all_tags, content_type_overrides (bare/parameterised/upper-case/unparseable keys, request and response side), --meta, --file-encoding, --custom-template-path and post_hooks each have to satisfy their documented relation and change nothing else.",
        note="sets of files allowed to change are computed from the IR; wire behaviour compared via from_dict/to_dict outcomes and the kwargs of scalar-argument endpoints",
        design="3/C16"),
})

CHECKS.update({
    "C11": dict(
        technique="property-based testing with a static analyser as oracle: batches of Hypothesis-generated packages type-checked by mypy under the repository's flags, plus runtime value-vs-annotation conformance and type-directed encoder probing",
        text="Generated documents (all schema kinds in all positions, forward references, multi-status responses, both enum styles) are generated six to a batch and type-checked by one mypy process (~290 packages in quick); decoded instances and served responses are checked attribute by attribute / return value against the annotations that hold them; values constructed from each parameter annotation must be accepted by to_dict and _get_kwargs. The repository's own golden record is type-checked first as an environment sanity check.",
        note="mypy verdicts depend on installed tool versions; errors keyed by (code, module kind, offending line shape); raw annotations are resolved by name to avoid typing's process-wide ForwardRef cache",
        design="3/C11"),
})

NOT_YET = {}

def main():
    props = [json.loads(l) for l in open(os.path.join(HERE, "properties.jsonl"))]
    checks = []
    na = []
    for p in props:
        pid = p["id"]
        c = CHECKS.get(pid)
        if not c:
            na.append({"property_id": pid, "reason": NOT_YET.get(pid, "check not built yet in this session (the technique applies; see DESIGN.md section 3)")})
            continue
        checks.append({
            "property_id": pid,
            "quick_cmd": f"./check {pid} --tier quick",
            "thorough_cmd": f"./check {pid} --tier thorough",
            "evidence_file": f"/verif/evidence/{pid}.json",
            "replay_cmd_template": f"./check {pid} --replay {{path}}",
            "engine": "pbt",
            "level_claimed": {"category": "exploration", "text": c["text"], "design_ref": c["design"]},
            "level_note": c["note"],
            "technique": c["technique"],
        })
    m = {
        "version": 1,
        "setup_cmd": "./setup.sh",
        "hooks": {
            "guard": "OPENAPI_PYTHON_CLIENT_VERIF",
            "enable": "no source hooks are needed: every observation point is public surface (returned diagnostics, CLI exit code, written tree, behaviour of generated code); the guard name is reserved and unused",
            "baseline_off_cmd": BASELINE,
            "source_commits": [],
            "add_only": True,
        },
        "engines": [{"name": "pbt", "path": "/verif/engine", "serves_properties": [c["property_id"] for c in checks],
                     "kind_free_text": "Hypothesis strategies + finite sweeps driving the generator and the generated code in-process, sharded over 16 worker processes; explicit oracles per property; own JSON delta-debugging shrinker; known-finding matching by (clause, site)"}],
        "checks": checks,
        "not_applicable": na,
        "notes": "All checks: ./check <ID> [--tier quick|thorough] [--replay FILE]; VERIF_SEED / VERIF_TIER honoured; exit 0 held (KNOWN-FINDING lines allowed), 1 VIOLATION, 2 harness error. Known findings: /verif/known_findings.jsonl.",
    }
    json.dump(m, open(os.path.join(HERE, "MANIFEST.json"), "w"), indent=1)
    print("checks:", [c["property_id"] for c in checks], "na:", len(na))

if __name__ == "__main__":
    main()
