#!/usr/bin/env python3
"""Regenerates MANIFEST.json from the table below (kept in one place so it is always valid)."""
import json, os

HERE = os.path.dirname(os.path.abspath(__file__))
BASELINE = "cd /repo && /venv/bin/python -m pytest -ra -q -p no:cacheprovider --timeout=900 --continue-on-collection-errors"

CHECKS = {
    "C06": dict(
        technique="property-based testing: Hypothesis junk-mutation / byte / JSON-value fuzzing of the generator with a no-exception + exit-code-agreement oracle (atheris campaign in thorough tier)",
        text="Generated-input search: thousands of mutated documents, raw byte strings and arbitrary JSON values per run are fed through the public generate() API and the CLI; any escaped exception (bucketed by type + innermost generator frame), any disagreement between exit status / banner / written output and the returned diagnostics, and any confirmed non-termination is a violation. Exploration cannot show absence; hangs are refuted only up to a two-stage time limit.",
        note="trusts typer's CliRunner as a faithful stand-in for the console script; post-hooks disabled; YAML alias bombs excluded by construction",
        design="3/C06"),
}

NOT_YET = {}

def main():
    props = [json.loads(l) for l in open(os.path.join(HERE, "properties.jsonl"))]
    checks = []
    na = []
    for p in props:
        pid = p["id"]
        c = CHECKS.get(pid)
        if not c:
            na.append({"property_id": pid, "reason": NOT_YET.get(pid, "check not built yet in this session (the technique applies; see DESIGN.md section 3)")})
            continue
        checks.append({
            "property_id": pid,
            "quick_cmd": f"./check {pid} --tier quick",
            "thorough_cmd": f"./check {pid} --tier thorough",
            "evidence_file": f"/verif/evidence/{pid}.json",
            "replay_cmd_template": f"./check {pid} --replay {{path}}",
            "engine": "pbt",
            "level_claimed": {"category": "exploration", "text": c["text"], "design_ref": c["design"]},
            "level_note": c["note"],
            "technique": c["technique"],
        })
    m = {
        "version": 1,
        "setup_cmd": "./setup.sh",
        "hooks": {
            "guard": "OPENAPI_PYTHON_CLIENT_VERIF",
            "enable": "no source hooks are needed: every observation point is public surface (returned diagnostics, CLI exit code, written tree, behaviour of generated code); the guard name is reserved and unused",
            "baseline_off_cmd": BASELINE,
            "source_commits": [],
            "add_only": True,
        },
        "engines": [{"name": "pbt", "path": "/verif/engine", "serves_properties": [c["property_id"] for c in checks],
                     "kind_free_text": "Hypothesis strategies + finite sweeps driving the generator and the generated code in-process, sharded over 16 worker processes; explicit oracles per property; own JSON delta-debugging shrinker; known-finding matching by (clause, site)"}],
        "checks": checks,
        "not_applicable": na,
        "notes": "All checks: ./check <ID> [--tier quick|thorough] [--replay FILE]; VERIF_SEED / VERIF_TIER honoured; exit 0 held (KNOWN-FINDING lines allowed), 1 VIOLATION, 2 harness error. Known findings: /verif/known_findings.jsonl.",
    }
    json.dump(m, open(os.path.join(HERE, "MANIFEST.json"), "w"), indent=1)
    print("checks:", [c["property_id"] for c in checks], "na:", len(na))

if __name__ == "__main__":
    main()
